#!/bin/sh
# Build the engine from files on disk only (module cache: golang.org/x/tools v0.50.0).
cd "$(dirname "$0")" || exit 1
export PATH=/opt/veriftools/go1.26.8/bin:$PATH GOFLAGS=-mod=mod GOPROXY=off GOTOOLCHAIN=local
mkdir -p bin evidence replays .work
(cd engine && go build -o ../bin/gosmt .) || exit 1
echo "gosmt built"
