package router

// Demonstration of the C06 defect reported by the "inbound" harness (assertion
// delivered-packet-that-is-not-ipv6; also remarked on by an independent sub-agent):
// handleIncomingTraffic never looked at the IP version of the inner packet. A sender whose packet
// starts with version nibble 4 but carries the authenticated addresses at the IPv6 offsets passed
// every check - the service policy is evaluated on the IPv6 offsets (next header at byte 6, ports at
// 40..44) - and was written to the local interface, which parses it as IPv4 (protocol at byte 9,
// addresses at 12..20): the default-deny firewall decided about a different packet than the one the
// host receives. Fixed in /repo (fix: commit). Copy into /repo/router as zz_c06_ipversion_test.go and
// run   go test -vet=off -count=1 -run ZZC06IPVersion ./router/

import (
	"context"
	"net/netip"
	"testing"


	"github.com/mycoria/mycoria/api/httpapi"
	"github.com/mycoria/mycoria/api/netstack"
	"github.com/mycoria/mycoria/config"
	"github.com/mycoria/mycoria/frame"
	"github.com/mycoria/mycoria/m"
	"github.com/mycoria/mycoria/mgr"
	"github.com/mycoria/mycoria/peering"
	"github.com/mycoria/mycoria/state"
	"github.com/mycoria/mycoria/switchr"
	"github.com/mycoria/mycoria/tun"
)

// zzC06Instance is a minimal instance for driving a real Router in tests.
type zzC06Instance struct {
	cfg *config.Config
	id  *m.Address
	fb  *frame.Builder
	st  *state.State
	td  *tun.Device
}

func (i *zzC06Instance) Version() string              { return "v0.0.0-test" }
func (i *zzC06Instance) Config() *config.Config       { return i.cfg }
func (i *zzC06Instance) Identity() *m.Address         { return i.id }
func (i *zzC06Instance) FrameBuilder() *frame.Builder { return i.fb }
func (i *zzC06Instance) State() *state.State          { return i.st }
func (i *zzC06Instance) NetStack() *netstack.NetStack { return nil }
func (i *zzC06Instance) API() *httpapi.API            { return nil }
func (i *zzC06Instance) TunDevice() *tun.Device       { return i.td }
func (i *zzC06Instance) Switch() *switchr.Switch      { return nil }
func (i *zzC06Instance) Peering() *peering.Peering    { return nil }

// zzC06Node is a router identity with its own state manager.
type zzC06Node struct {
	inst *zzC06Instance
}

func zzC06NewNode(t *testing.T, ip string, store config.Store) *zzC06Node {
	t.Helper()

	// a real self-certifying identity (sessions are only created from identities that prove their address)
	id, _, err := m.GenerateRoutableAddress(context.Background(), []netip.Prefix{netip.MustParsePrefix("fd10::/12")}, nil, 0)
	if err != nil {
		t.Fatal(err)
	}
	_ = ip
	inst := &zzC06Instance{
		cfg: config.MakeTestConfig(store),
		id:  id,
		fb: frame.NewFrameBuilder(),
		td: &tun.Device{
			RecvRaw:   make(chan []byte, 100),
			SendRaw:   make(chan []byte, 100),
			SendFrame: make(chan frame.Frame, 100),
		},
	}
	inst.st = state.New(inst, nil)
	return &zzC06Node{inst: inst}
}

// zzC06Connect makes both nodes know each other and sets up encryption
// keys between them, as a completed hello ping would.
func zzC06Connect(t *testing.T, client, server *zzC06Node) {
	t.Helper()

	if err := client.inst.st.AddRouter(&server.inst.id.PublicAddress); err != nil {
		t.Fatal(err)
	}
	if err := server.inst.st.AddRouter(&client.inst.id.PublicAddress); err != nil {
		t.Fatal(err)
	}
	eC := client.inst.st.GetSession(server.inst.id.IP).Encryption()
	eS := server.inst.st.GetSession(client.inst.id.IP).Encryption()

	kxKey1, kxType1, err := eC.InitKeyClientStart()
	if err != nil {
		t.Fatal(err)
	}
	kxKey2, kxType2, err := eS.InitKeyServer(kxKey1, kxType1)
	if err != nil {
		t.Fatal(err)
	}
	if err := eC.InitKeyClientComplete(kxKey2, kxType2); err != nil {
		t.Fatal(err)
	}
}

// zzC06TCPPacket builds a minimal IPv6/TCP packet.
func zzC06TCPPacket(src, dst netip.Addr, srcPort, dstPort uint16) []byte {
	p := make([]byte, 60)
	p[0] = 6 << 4
	m.PutUint16(p[4:6], 20) // Payload length.
	p[6] = 6                // Next header: TCP.
	p[7] = 64               // Hop limit.
	s := src.As16()
	copy(p[8:24], s[:])
	d := dst.As16()
	copy(p[24:40], d[:])
	m.PutUint16(p[40:42], srcPort)
	m.PutUint16(p[42:44], dstPort)
	p[52] = 5 << 4 // Data offset.
	p[53] = 0x02   // SYN.
	return p
}

// zzC06Transfer seals the frame at the sender and re-parses it at the
// receiver from a copy of the raw bytes, as if it came in over a link.
func zzC06Transfer(t *testing.T, from, to *zzC06Node, f *frame.FrameV1) frame.Frame {
	t.Helper()

	if err := f.Seal(from.inst.st.GetSession(to.inst.id.IP)); err != nil {
		t.Fatalf("seal: %s", err)
	}
	raw, err := f.FrameDataWithMargins(0, 0)
	if err != nil {
		t.Fatal(err)
	}
	ps := to.inst.fb.GetPooledSlice(len(raw))
	copy(ps, raw)
	rf, err := to.inst.fb.ParseFrame(ps[:len(raw)], ps, 0)
	if err != nil {
		t.Fatalf("parse: %s", err)
	}
	f.ReturnToPool()
	return rf
}

// zzC06SendTraffic sends an IP packet in an authentic traffic frame from
// "from" to the router under test and reports whether the router handed it
// to its tun device.
func zzC06SendTraffic(t *testing.T, r *Router, from, to *zzC06Node, packet []byte) (delivered bool) {
	t.Helper()

	f, err := from.inst.fb.NewFrameV1(from.inst.id.IP, to.inst.id.IP, frame.NetworkTraffic, nil, packet, nil)
	if err != nil {
		t.Fatal(err)
	}
	rf := zzC06Transfer(t, from, to, f)

	_ = r.mgr.Do("zz demo frame", func(w *mgr.WorkerCtx) error {
		if err := r.handleFrame(w, rf); err != nil {
			// Same as the frame handler worker does.
			t.Logf("handle frame: %s", err)
			rf.ReturnToPool()
		}
		return nil
	})

	select {
	case <-to.inst.td.SendFrame:
		return true
	default:
		return false
	}
}

const (
	zzC06VictimIP = "fd21:1111::1"
	zzC06RemoteIP = "fd21:2222::2"
	zzC06OtherIP  = "fd21:3333::3"
)

func TestZZC06IPVersion(t *testing.T) {
	victim := zzC06NewNode(t, zzC06VictimIP, config.Store{
		ServiceConfigs: []config.ServiceConfig{{Name: "web", URL: "tcp://:80", Public: true}},
	})
	remote := zzC06NewNode(t, zzC06RemoteIP, config.Store{})
	zzC06Connect(t, remote, victim)
	r, err := New(victim.inst, Config{})
	if err != nil {
		t.Fatal(err)
	}
	pkt := zzC06TCPPacket(remote.inst.id.IP, victim.inst.id.IP, 40000, 80)
	if !zzC06SendTraffic(t, r, remote, victim, pkt) {
		t.Fatal("IPv6 packet to the configured public service was not delivered")
	}
	pkt = zzC06TCPPacket(remote.inst.id.IP, victim.inst.id.IP, 40000, 80)
	pkt[0] = 4<<4 | 5 // an IPv4 header as far as the receiving interface is concerned
	if zzC06SendTraffic(t, r, remote, victim, pkt) {
		t.Fatal("C06 violated: a packet that is not IPv6 was handed to the local interface")
	}
}
