package peering

// Demonstration of the C20/C04 defect reported by the "two-relays-peer" harness (remarked on by an
// independent sub-agent): a universe secret configured without a universe name is a configuration
// the parser accepts, but the responder only added its universe proof when the universe had a
// name, while the requester demands the proof whenever a secret is configured: two such routers
// could never peer ("universe auth missing"). Fixed in /repo (fix: commit).
// Copy into /repo/peering as zz_c20_universe_test.go and run
//   go test -vet=off -count=1 -run ZZC20Universe ./peering/

import (
	"testing"

	"github.com/mycoria/mycoria/config"
)

func TestZZC20Universe(t *testing.T) {
	cfg := config.MakeTestConfig(config.Store{Router: config.Router{UniverseSecret: "s3cret"}})
	pA := New(getTestInstance(t, cfg), nil)
	pB := New(getTestInstance(t, cfg), nil)
	a, reqA, err := pA.createPeeringRequest(true)
	if err != nil {
		t.Fatal(err)
	}
	b, reqB, err := pB.createPeeringRequest(false)
	if err != nil {
		t.Fatal(err)
	}
	respA, err := a.handle(reqB)
	if err != nil {
		t.Fatal("a request:", err)
	}
	respB, err := b.handle(reqA)
	if err != nil {
		t.Fatal("b request:", err)
	}
	if _, err := a.handle(respB); err != nil {
		t.Errorf("two routers with the same universe secret cannot peer: %v", err)
	}
	if _, err := b.handle(respA); err != nil {
		t.Errorf("two routers with the same universe secret cannot peer: %v", err)
	}
}
