package state

// Demonstration of the C03/C09 defect reported by the C03 "sender-clock" harness (remarked on by
// two independent sub-agents at router level: a keep-alive ping followed within the same
// millisecond by an announcement makes the peer drop the announcement as "delayed frame", and in a
// line S-X-Y router Y never learns S in that round). A receiver keeps ONE strictly-increasing
// timestamp filter per source router, but the sender stamped signed frames from a separate clock per
// session (and raw-signed frames with "now - 1 ms"), so two frames of one router for one receiver,
// sealed under different sessions within a millisecond, carried equal or decreasing timestamps and
// the second - a genuine, never-seen frame - was refused. Fixed in /repo (fix: commit): one outgoing
// sequence per router. Copy into /repo/state as zz_c03_senderclock_test.go and run
//   go test -vet=off -count=1 -run ZZC03SenderClock ./state/

import "testing"

func TestZZC03SenderClock(t *testing.T) {
	toPeer, toAll := NewTimeSequenceHandler(0), NewTimeSequenceHandler(0) // two sessions of the sender
	rx := NewTimeSequenceHandler(0)                                       // the receiver's filter for that sender
	for i := 0; i < 1000; i++ {
		if err := rx.Check(toPeer.Next()); err != nil {
			t.Fatalf("frame %d (unicast session) of an honest sender refused: %v", i, err)
		}
		if err := rx.Check(toAll.Next()); err != nil {
			t.Fatalf("frame %d (all-routers session) of an honest sender refused: %v", i, err)
		}
	}
}
