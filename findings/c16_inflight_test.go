package router

// Demonstration of the C16 defect reported by the "announce-after-close" harness (first noted, from
// reading, by an independent sub-agent): an announcement that is still waiting in the router's
// input queue when its receive link closes is handled afterwards and added a direct-peer route via
// the vanished link. RemoveLink had already removed the routes via that peer and direct-peer routes
// never expire, so the table kept a peer route without a live link. Fixed in /repo (fix: commit):
// the route is added under the link registry lock and only while the receive link is registered.
// Copy into /repo/router as zz_c16_inflight_test.go and run
//   go test -vet=off -count=1 -run ZZC16InFlight ./router/

import (
	"bytes"
	"context"
	"net"
	"net/netip"
	"sync"
	"testing"
	"time"

	"github.com/mycoria/mycoria/api/httpapi"
	"github.com/mycoria/mycoria/api/netstack"
	"github.com/mycoria/mycoria/config"
	"github.com/mycoria/mycoria/frame"
	"github.com/mycoria/mycoria/m"
	"github.com/mycoria/mycoria/mgr"
	"github.com/mycoria/mycoria/peering"
	"github.com/mycoria/mycoria/state"
	"github.com/mycoria/mycoria/switchr"
	"github.com/mycoria/mycoria/tun"
)

// zzC16Node is a complete router with real state, peering, switch and router
// modules, wired together like inst.Ance does, but with fake links.
type zzC16Node struct {
	name string
	cfg  *config.Config
	id   *m.Address
	fb   *frame.Builder
	st   *state.State
	sw   *switchr.Switch
	pr   *peering.Peering
	rt   *Router
}

func (n *zzC16Node) Version() string               { return "v0.0.0-test" }
func (n *zzC16Node) Config() *config.Config        { return n.cfg }
func (n *zzC16Node) Identity() *m.Address          { return n.id }
func (n *zzC16Node) FrameBuilder() *frame.Builder  { return n.fb }
func (n *zzC16Node) State() *state.State           { return n.st }
func (n *zzC16Node) NetStack() *netstack.NetStack  { return nil }
func (n *zzC16Node) API() *httpapi.API             { return nil }
func (n *zzC16Node) TunDevice() *tun.Device        { return nil }
func (n *zzC16Node) Switch() *switchr.Switch       { return n.sw }
func (n *zzC16Node) Peering() *peering.Peering     { return n.pr }
func (n *zzC16Node) RoutingTable() *m.RoutingTable { return n.rt.Table() }

func zzC16NewNode(t *testing.T, name string) *zzC16Node {
	t.Helper()

	id, _, err := m.GenerateRoutableAddress(
		context.Background(),
		[]netip.Prefix{netip.MustParsePrefix("fd10::/12")},
		nil, 0,
	)
	if err != nil {
		t.Fatalf("generate address for %s: %s", name, err)
	}

	n := &zzC16Node{
		name: name,
		cfg:  &config.Config{},
		id:   id,
		fb:   frame.NewFrameBuilder(),
	}
	n.cfg.System.DisableTun = true
	n.st = state.New(n, nil)
	n.rt, err = New(n, Config{})
	if err != nil {
		t.Fatalf("create router for %s: %s", name, err)
	}
	n.sw = switchr.New(n, n.rt.Input())
	n.pr = peering.New(n, n.sw.Input())
	return n
}

// zzC16Link is a fake link that records all frames sent on it.
type zzC16Link struct {
	peer    netip.Addr
	label   m.SwitchLabel
	latency uint16

	lock sync.Mutex
	sent [][]byte
}

var _ peering.Link = &zzC16Link{}

func (l *zzC16Link) String() string                           { return "zzC16Link to " + l.peer.String() }
func (l *zzC16Link) Peer() netip.Addr                         { return l.peer }
func (l *zzC16Link) SwitchLabel() m.SwitchLabel               { return l.label }
func (l *zzC16Link) GeoMark() string                          { return "" }
func (l *zzC16Link) PeeringURL() *m.PeeringURL                { return nil }
func (l *zzC16Link) Outgoing() bool                           { return false }
func (l *zzC16Link) Lite() bool                               { return false }
func (l *zzC16Link) SendPriority(f frame.Frame) error         { return l.Send(f) }
func (l *zzC16Link) LocalAddr() net.Addr                      { return nil }
func (l *zzC16Link) RemoteAddr() net.Addr                     { return nil }
func (l *zzC16Link) Started() time.Time                       { return time.Time{} }
func (l *zzC16Link) Uptime() time.Duration                    { return 0 }
func (l *zzC16Link) Latency() uint16                          { return l.latency }
func (l *zzC16Link) AddMeasuredLatency(latency time.Duration) {}
func (l *zzC16Link) BytesIn() uint64                          { return 0 }
func (l *zzC16Link) BytesOut() uint64                         { return 0 }
func (l *zzC16Link) FlowControlIndicator() frame.FlowControlFlag {
	return 0
}
func (l *zzC16Link) IsClosing() bool  { return false }
func (l *zzC16Link) Close(log func()) {}

func (l *zzC16Link) Send(f frame.Frame) error {
	data, err := f.FrameDataWithMargins(0, 0)
	if err != nil {
		return err
	}
	l.lock.Lock()
	defer l.lock.Unlock()
	l.sent = append(l.sent, bytes.Clone(data))
	return nil
}

func (l *zzC16Link) sentFrames() [][]byte {
	l.lock.Lock()
	defer l.lock.Unlock()
	return append([][]byte(nil), l.sent...)
}

// zzC16Connect peers a and b and returns the link a holds to b and the link b holds to a.
func zzC16Connect(t *testing.T, a, b *zzC16Node, labelAtA, labelAtB m.SwitchLabel, latency uint16) (aToB, bToA *zzC16Link) {
	t.Helper()

	aToB = &zzC16Link{peer: b.id.IP, label: labelAtA, latency: latency}
	bToA = &zzC16Link{peer: a.id.IP, label: labelAtB, latency: latency}
	if err := a.pr.AddLink(aToB); err != nil {
		t.Fatalf("add link %s->%s: %s", a.name, b.name, err)
	}
	if err := b.pr.AddLink(bToA); err != nil {
		t.Fatalf("add link %s->%s: %s", b.name, a.name, err)
	}
	return aToB, bToA
}

// zzC16Deliver hands the raw frame to the router of the node, as received on the given link.
func zzC16Deliver(t *testing.T, n *zzC16Node, raw []byte, recvLink *zzC16Link) error {
	t.Helper()

	ps := n.fb.GetPooledSlice(len(raw))
	copy(ps, raw)
	f, err := n.fb.ParseFrame(ps[:len(raw)], ps, 0)
	if err != nil {
		t.Fatalf("parse frame for %s: %s", n.name, err)
	}
	f.SetRecvLink(recvLink)

	var handleErr error
	_ = n.rt.mgr.Do("zz demo", func(w *mgr.WorkerCtx) error {
		handleErr = n.rt.handleFrame(w, f)
		return nil
	})
	return handleErr
}


func TestZZC16InFlight(t *testing.T) {
	a := zzC16NewNode(t, "A")
	b := zzC16NewNode(t, "B")
	aToB, bToA := zzC16Connect(t, a, b, 33, 44, 7)

	// B announces itself to its peer A; the frame reaches A's input queue ...
	if err := b.rt.AnnouncePing.Send(a.id.IP); err != nil {
		t.Fatalf("B failed to announce: %s", err)
	}
	if len(bToA.sentFrames()) != 1 {
		t.Fatalf("expected 1 frame from B to A, got %d", len(bToA.sentFrames()))
	}
	inFlight := bToA.sentFrames()[0]

	// ... the link goes down before a frame handler gets to it ...
	a.pr.RemoveLink(aToB)
	if rte, _ := a.rt.Table().LookupNearest(b.id.IP); rte != nil && rte.NextHop == b.id.IP {
		t.Fatalf("route via B survived the removal of the link: %+v", rte)
	}

	// ... and then the queued frame is handled.
	_ = zzC16Deliver(t, a, inFlight, aToB)

	if a.pr.GetLink(b.id.IP) != nil {
		t.Fatal("link still registered")
	}
	if rte, _ := a.rt.Table().LookupNearest(b.id.IP); rte != nil && rte.NextHop == b.id.IP {
		t.Fatalf("C16 violated: route via %s although no link to it exists: dst=%s source=%v", rte.NextHop, rte.DstIP, rte.Source)
	}
}
