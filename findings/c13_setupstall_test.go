package peering

// Demonstration of the C13/C20 defect reported by the "setup-stall" harness (remarked on by two
// independent sub-agents): the link setup read and wrote its handshake messages without any
// deadline. A remote that accepts the TCP connection and then stays silent stalled the worker that
// runs the setup for ever - the connect manager itself on the dialling side (it dials and sets up
// synchronously, so the router stops connecting to anybody), one setup worker per silent incoming
// connection on the listening side - and Stop() then waits a minute for that worker and fails.
// Fixed in /repo (fix: commit): the setup phase runs under a connection deadline.
// The remote here is a connection that never answers; a Read without a deadline would block for
// ever, which the test reports instead of hanging. Copy into /repo/peering as
// zz_c13_setupstall_test.go and run   go test -vet=off -count=1 -run ZZC13SetupStall ./peering/

import (
	"errors"
	"net"
	"os"
	"testing"
	"time"

	"github.com/mycoria/mycoria/config"
)

type zzSilentConn struct {
	deadline      time.Time
	blockedForever bool
}

func (c *zzSilentConn) Read(b []byte) (int, error) {
	if c.deadline.IsZero() {
		c.blockedForever = true // nothing will ever wake this Read up
		return 0, errors.New("silent remote")
	}
	return 0, os.ErrDeadlineExceeded // the deadline fires
}
func (c *zzSilentConn) Write(b []byte) (int, error)        { return len(b), nil }
func (c *zzSilentConn) Close() error                       { return nil }
func (c *zzSilentConn) LocalAddr() net.Addr                { return &net.TCPAddr{} }
func (c *zzSilentConn) RemoteAddr() net.Addr               { return &net.TCPAddr{} }
func (c *zzSilentConn) SetDeadline(t time.Time) error      { c.deadline = t; return nil }
func (c *zzSilentConn) SetReadDeadline(t time.Time) error  { c.deadline = t; return nil }
func (c *zzSilentConn) SetWriteDeadline(t time.Time) error { return nil }

func TestZZC13SetupStall(t *testing.T) {
	inst := getTestInstance(t, config.MakeTestConfig(config.Store{}))
	p := New(inst, nil)
	for _, outgoing := range []bool{true, false} {
		conn := &zzSilentConn{}
		link := &LinkBase{conn: conn, peering: p, closed: make(chan struct{}), outgoing: outgoing}
		_, err := link.handleSetupMessages(outgoing)
		if err == nil {
			t.Fatal("setup with a silent remote succeeded")
		}
		if conn.blockedForever {
			t.Errorf("outgoing=%v: the setup reads from a silent remote without a deadline: the worker stalls for ever", outgoing)
		}
	}
}
