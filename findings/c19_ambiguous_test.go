package config

// Demonstration of the C19 defect reported by the "config-names" harness (remarked on by an
// independent sub-agent): resolve entries are normalised (lower case, trailing dot, IDN) after the
// configuration was read into a map, so two spellings of one name with different addresses both
// passed and the one the parser happened to meet last won - the resolver's answer for a configured
// name depended on Go's map iteration order, not on the configuration. Fixed in /repo (fix: commit):
// such a configuration is refused. Copy into /repo/config as zz_c19_ambiguous_test.go and run
//   go test -vet=off -count=1 -run ZZC19Ambiguous ./config/

import "testing"

func TestZZC19Ambiguous(t *testing.T) {
	st := Store{ResolveConfig: map[string]string{"dup.myco": "fd1f::1", "DUP.myco.": "fd1f::2"}}
	seen := map[string]bool{}
	for i := 0; i < 200; i++ {
		c, err := st.parse(true)
		if err != nil {
			return // refused: fine
		}
		seen[c.Resolve["dup.myco"].String()] = true
	}
	t.Errorf("the same configuration resolves dup.myco to %v depending on the run", seen)
}
