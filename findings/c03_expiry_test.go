package state

// Demonstration of the C03/C07 known finding reported by the C03 "expiry"
// harness: the signed-frame replay filter lives in the Session object, the
// session cleaner drops idle sessions (after one minute without encryption
// keys, one hour with), and nothing bounds the age of a signed frame. A signed
// frame that was accepted is accepted again once the session has expired.
// Copy into /repo/state as zz_c03_expiry_test.go and run
//   go test -vet=off -count=1 -run ZZC03Expiry ./state/

import (
	"context"
	"testing"
	"time"

	"github.com/mycoria/mycoria/config"
	"github.com/mycoria/mycoria/m"
	"github.com/mycoria/mycoria/storage"
)

type zzExpInst struct{ id *m.Address }

func (i *zzExpInst) Identity() *m.Address   { return i.id }
func (i *zzExpInst) Config() *config.Config { return &config.Config{} }

func TestZZC03Expiry(t *testing.T) {
	own, _, err := m.GeneratePrivacyAddress(context.Background())
	if err != nil {
		t.Fatal(err)
	}
	peer, _, err := m.GeneratePrivacyAddress(context.Background())
	if err != nil {
		t.Fatal(err)
	}
	st := New(&zzExpInst{id: own}, storage.NewMemStorage())
	if err := st.AddRouter(&peer.PublicAddress); err != nil {
		t.Fatal(err)
	}
	stamp := time.Now().Round(time.Millisecond)
	if err := st.GetSession(peer.IP).Signing().Seq().Check(stamp); err != nil {
		t.Fatalf("first delivery: %s", err)
	}
	if err := st.GetSession(peer.IP).Signing().Seq().Check(stamp); err == nil {
		t.Fatal("immediate duplicate accepted")
	}
	// two idle minutes later the cleaner runs
	st.GetSession(peer.IP).lastActivity = time.Now().Add(-2 * time.Minute)
	st.cleanSessions()
	if err := st.GetSession(peer.IP).Signing().Seq().Check(stamp); err == nil {
		t.Errorf("replay accepted: the signed frame stamped %s was accepted a second time after the session expired", stamp)
	}
}
