package frame

// Demonstration of the C15/C03 defect found by the C15 "duplex" harness:
// one SequenceHandler object holds the receive window AND the send counter of
// a class, and EncryptionSession.In / Out reset the whole priority handler on
// a regular-sequence wrap of ONE direction.
//   (1) When router 2 receives router 1's wrap, its priority SEND counter
//       restarts although its out key did not change: sequence numbers (and
//       with them AEAD nonces) repeat under one key.
//   (2) When router 1 sends across its wrap, its priority RECEIVE window is
//       reset although its in key did not change: a recorded priority frame
//       from router 2 is accepted a second time.
// Copy into /repo/frame as zz_c15_duplex_test.go and run
//   go test -vet=off -count=1 -run ZZC15Duplex ./frame/

import (
	"bytes"
	"testing"

	"github.com/mycoria/mycoria/state"
)

func TestZZC15Duplex(t *testing.T) { //nolint:paralleltest
	b := NewFrameBuilder()
	s1, s2 := getTestSessions(t)
	e1h := state.EncryptionSessionTestHelper{EncryptionSession: s1.Encryption()}
	e2h := state.EncryptionSessionTestHelper{EncryptionSession: s2.Encryption()}
	e1h.ReglSetOut(0xFFFF_FFFF - 3)
	e1h.PrioSetOut(0)
	e2h.PrioSetOut(0)
	e2h.PrioSeq().Reset() // fresh priority class on both sides
	e1h.PrioSeq().Reset()

	// Router 2 sends five priority frames to router 1; the attacker records the third.
	var recorded []byte
	var firstSeqs []uint32
	for i := 0; i < 5; i++ {
		f, err := b.NewFrameV1(s2.Address().IP, s1.Address().IP, RouterCtrl, nil, testData, nil)
		if err != nil {
			t.Fatal(err)
		}
		if err := f.Seal(s2); err != nil {
			t.Fatal(err)
		}
		firstSeqs = append(firstSeqs, f.SequenceNum())
		fd, _ := f.FrameDataWithMargins(0, 0)
		wire := append([]byte(nil), fd...)
		if i == 2 {
			recorded = wire
		}
		g, err := b.ParseFrame(append([]byte(nil), wire...), nil, 0)
		if err != nil {
			t.Fatal(err)
		}
		if err := g.Unseal(s1); err != nil {
			t.Fatalf("priority frame %d: %s", i, err)
		}
	}
	key2 := append([]byte(nil), e2h.OutKey()...)
	inKey1 := append([]byte(nil), e1h.InKey()...)

	// Router 1 sends regular traffic across its sequence wrap; router 2 receives it.
	for i := 0; i < 8; i++ {
		f, err := b.NewFrameV1(s1.Address().IP, s2.Address().IP, NetworkTraffic, nil, testData, nil)
		if err != nil {
			t.Fatal(err)
		}
		if err := f.Seal(s1); err != nil {
			t.Fatal(err)
		}
		if err := f.Unseal(s2); err != nil {
			t.Fatalf("regular frame %d: %s", i, err)
		}
	}
	if !bytes.Equal(key2, e2h.OutKey()) || !bytes.Equal(inKey1, e1h.InKey()) {
		t.Fatal("setup: the 2->1 key was not supposed to change")
	}

	// (1) router 2 seals its next priority frame: the key is the same, so the number must be new.
	f, err := b.NewFrameV1(s2.Address().IP, s1.Address().IP, RouterCtrl, nil, testData, nil)
	if err != nil {
		t.Fatal(err)
	}
	if err := f.Seal(s2); err != nil {
		t.Fatal(err)
	}
	for _, old := range firstSeqs {
		if f.SequenceNum() == old {
			t.Errorf("nonce reuse: priority sequence number %d issued twice under the same out key", old)
		}
	}

	// (2) the recorded priority frame is replayed to router 1.
	g, err := b.ParseFrame(append([]byte(nil), recorded...), nil, 0)
	if err != nil {
		t.Fatal(err)
	}
	if err := g.Unseal(s1); err == nil {
		t.Errorf("replay accepted: a priority frame router 1 had already accepted unsealed a second time")
	}
}
