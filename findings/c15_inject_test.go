package frame

// Demonstration of the C15/C05 defect found by the C15 "inject" harness:
// EncryptionSession.In rolls the in key (and resets the receive window) as
// soon as a frame with a small sequence number arrives while the window is
// within 256 of the wrap - BEFORE that frame has authenticated. One forged
// frame therefore moves the receiver to the next key while the sender is
// still using the current one: the intact frames that follow are lost.
// Copy into /repo/frame as zz_c15_inject_test.go and run
//   go test -vet=off -count=1 -run ZZC15Inject ./frame/

import (
	"testing"

	"github.com/mycoria/mycoria/state"
)

func TestZZC15Inject(t *testing.T) { //nolint:paralleltest
	b := NewFrameBuilder()
	s1, s2 := getTestSessions(t)
	e1h := state.EncryptionSessionTestHelper{EncryptionSession: s1.Encryption()}
	e1h.ReglSetOut(0xFFFF_FFFF - 40)

	send := func() *FrameV1 {
		f, err := b.NewFrameV1(s1.Address().IP, s2.Address().IP, NetworkTraffic, nil, testData, nil)
		if err != nil {
			t.Fatal(err)
		}
		if err := f.Seal(s1); err != nil {
			t.Fatal(err)
		}
		return f
	}
	// a few genuine frames bring the receiver's window close to the wrap
	for i := 0; i < 3; i++ {
		if err := send().Unseal(s2); err != nil {
			t.Fatalf("genuine frame %d: %s", i, err)
		}
	}
	// the attacker injects a frame with sequence number 1 and garbage for a MAC
	forged := send()
	wire, _ := forged.FrameDataWithMargins(0, 0)
	wire = append([]byte(nil), wire...)
	wire[8], wire[9], wire[10], wire[11] = 0, 0, 0, 1 // sequence number
	wire[len(wire)-1] ^= 0xff
	g, err := b.ParseFrame(wire, nil, 0)
	if err != nil {
		t.Fatal(err)
	}
	if g.SequenceNum() != 1 {
		t.Fatalf("test setup: forged sequence number is %d", g.SequenceNum())
	}
	if err := g.Unseal(s2); err == nil {
		t.Fatal("forged frame accepted")
	}
	// the sender has not wrapped yet: its next intact frames must still arrive
	for i := 0; i < 5; i++ {
		if err := send().Unseal(s2); err != nil {
			t.Errorf("intact frame %d after the injected one is lost: %s", i, err)
		}
	}
}
