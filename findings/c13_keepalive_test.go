package router

// Demonstration of the C13 defect reported by the "keepalive-race" harness (and remarked on by an
// independent sub-agent): PingPongHandler.Send with a retry id does getActive .. sendPingMsg ..
// setActive; when the (late) response to the first ping is handled by a frame worker between
// getActive and setActive, the state is registered again with its notify channel already closed,
// and the response to the retry closes it a second time: panic "close of closed channel". The peer
// controls the timing (retries come a fixed interval after the first ping and reuse its id).
// The test replays that interleaving through the real functions, Send's three steps done by hand.
// Fixed in /repo (fix: commit). Copy into /repo/router as zz_c13_keepalive_test.go and run
//   go test -vet=off -count=1 -run ZZC13KeepAlive ./router/

import (
	"testing"
	"time"

	"github.com/fxamacker/cbor/v2"
)

func TestZZC13KeepAlive(t *testing.T) {
	h := NewPingPongHandler(nil)
	pong, err := cbor.Marshal(&pingPongMsg{Msg: "pong"})
	if err != nil {
		t.Fatal(err)
	}
	const id = 42
	// first keep-alive ping sent (Send with retryPingID == 0, the part after sendPingMsg)
	h.setActive(id, &pingPongState{started: time.Now(), notify: make(chan struct{})})
	// retry under the same id: Send looks the state up ...
	st := h.getActive(id)
	// ... the late response to the first ping is handled by a frame worker ...
	if err := h.handleResponse(nil, nil, &PingHeader{PingID: id, FollowUp: true}, pong); err != nil {
		t.Fatal(err)
	}
	// ... and Send registers the state again after sending the retry
	h.setActive(id, st)
	// the response to the retry
	defer func() {
		if r := recover(); r != nil {
			t.Fatalf("worker panics on the response to the retry: %v", r)
		}
	}()
	_ = h.handleResponse(nil, nil, &PingHeader{PingID: id, FollowUp: true}, pong)
}
