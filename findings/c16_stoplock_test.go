package peering

// Demonstration of the C16/C20 defect reported by the C16 "churn" harness (assertion
// registry-map-touched-outside-registry-lock; also remarked on by two independent sub-agents):
// copyLinksWithLocking, used by closeAllLinks when the peering module stops, cloned p.links under
// listenersLock instead of linksLock. A link registering or unregistering at that moment races
// with the clone; the Go runtime ends the process with "fatal error: concurrent map ..." (or the
// race detector reports it). Fixed in /repo (fix: commit). Copy into /repo/peering as
// zz_c16_stoplock_test.go and run
//   go test -vet=off -count=1 -run ZZC16StopLock ./peering/      (optionally with -race)

import (
	"net/netip"
	"sync"
	"testing"

	"github.com/mycoria/mycoria/m"
)

func TestZZC16StopLock(t *testing.T) {
	p := &Peering{links: map[netip.Addr]Link{}, linksByLabel: map[m.SwitchLabel]Link{}}
	stop := make(chan struct{})
	var wg sync.WaitGroup
	wg.Add(1)
	go func() { // links registering and unregistering, under the registry lock as AddLink/RemoveLink do
		defer wg.Done()
		a := netip.MustParseAddr("fd00::1")
		for i := 0; ; i++ {
			select {
			case <-stop:
				return
			default:
			}
			p.linksLock.Lock()
			p.links[netip.AddrFrom16([16]byte{0xfd, byte(i), byte(i >> 8)})] = nil
			p.links[a] = nil
			delete(p.links, a)
			if len(p.links) > 512 {
				clear(p.links)
			}
			p.linksLock.Unlock()
		}
	}()
	for i := 0; i < 200000; i++ { // the shutdown path
		_ = p.copyLinksWithLocking()
	}
	close(stop)
	wg.Wait()
}
