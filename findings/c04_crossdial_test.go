package peering

// Demonstration of what the C04 "cross-dial" harness reports (first written by an independent
// sub-agent as a remark on the unchanged tree): two routers dial each other at the same time; the
// key-exchange state lives in the per-PEER session object, not in the per-connection handshake
// state, so the two handshakes at one router overwrite each other's exchange keys.
//  (1) KNOWN FINDING (recorded, not repaired - needs per-connection key-exchange state, a protocol
//      design change): connection 1 completes on BOTH ends without error, yet the link keys differ:
//      TestZZC04CrossDialKeys fails on the current tree.
//  (2) FIXED in /repo (fix: commit): after connection 1's finalize dropped the shared exchange
//      keys, the ack of connection 2 ran ECDH on a nil private key: nil-pointer panic in the setup
//      worker. TestZZC04CrossDialPanic passes on the current tree and panicked before the fix.
// Copy into /repo/peering as zz_c04_crossdial_test.go and run
//   go test -vet=off -count=1 -run ZZC04CrossDial ./peering/

import (
	"testing"
	"time"

	"github.com/mycoria/mycoria/config"
)

// Remark 1: two routers dial each other at the same time. Both handshakes of one
// router share the per-peer state.Session.Encryption() object for the key exchange.
func zzC04CrossDial(t *testing.T, checkKeys bool) {
	cfg := config.MakeTestConfig(config.Store{})
	instA := getTestInstance(t, cfg)
	instB := getTestInstance(t, cfg)
	pA := New(instA, nil)
	pB := New(instB, nil)

	// conn1: A client, B server. conn2: B client, A server.
	a1, reqA1, _ := pA.createPeeringRequest(true)
	b1, reqB1, _ := pB.createPeeringRequest(false)
	time.Sleep(5 * time.Millisecond)
	b2, reqB2, _ := pB.createPeeringRequest(true)
	a2, reqA2, _ := pA.createPeeringRequest(false)

	// Requests.
	respA1, err := a1.handle(reqB1)
	if err != nil {
		t.Fatal("a1 req", err)
	}
	respB1, err := b1.handle(reqA1)
	if err != nil {
		t.Fatal("b1 req", err)
	}
	respA2, err := a2.handle(reqB2)
	if err != nil {
		t.Fatal("a2 req", err)
	}
	respB2, err := b2.handle(reqA2)
	if err != nil {
		t.Fatal("b2 req", err)
	}
	// Responses.
	ackA1, err := a1.handle(respB1)
	if err != nil {
		t.Fatal("a1 resp", err)
	}
	ackB1, err := b1.handle(respA1)
	if err != nil {
		t.Fatal("b1 resp", err)
	}
	ackA2, err := a2.handle(respB2)
	if err != nil {
		t.Fatal("a2 resp", err)
	}
	ackB2, err := b2.handle(respA2)
	if err != nil {
		t.Fatal("b2 resp", err)
	}
	// Acks of conn1: both ends complete without any error.
	if _, err := a1.handle(ackB1); err != nil {
		t.Fatal("a1 ack", err)
	}
	if _, err := b1.handle(ackA1); err != nil {
		t.Fatal("b1 ack", err)
	}
	encA1, err := a1.finalize()
	if err != nil {
		t.Fatal("a1 finalize", err)
	}
	encB1, err := b1.finalize()
	if err != nil {
		t.Fatal("b1 finalize", err)
	}

	// ... but the derived link keys do not match.
	lf := LinkFrame(make([]byte, FrameOffset+len(testData)+FrameOverhead))
	copy(lf.LinkData(), testData)
	if err := lf.Seal(encA1); err != nil {
		t.Fatal(err)
	}
	if err := lf.Unseal(encB1); err != nil && checkKeys {
		t.Errorf("conn1 completed on both ends, but A->B does not unseal: %s", err)
	}
	if checkKeys {
		return
	}

	// Acks of conn2: finalize() of conn1 has wiped the shared kx keys, the client side
	// now panics with a nil pointer dereference in ecdh.(*PrivateKey).ECDH.
	if _, err := a2.handle(ackB2); err != nil {
		t.Log("a2 ack", err)
	}
	if _, err := b2.handle(ackA2); err != nil {
		t.Log("b2 ack", err)
	}
}


func TestZZC04CrossDialKeys(t *testing.T)  { zzC04CrossDial(t, true) }
func TestZZC04CrossDialPanic(t *testing.T) { zzC04CrossDial(t, false) }
