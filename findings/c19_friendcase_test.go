package dns

// Demonstration of the C19 defect found by the "configured" harness (and remarked on by an
// independent sub-agent): friend names are stored as configured, queried names are lower-cased,
// and Lookup matched them case-sensitively - a friend written "Alice" never answered for
// alice.myco and a stored mapping for alice.myco was served instead. Fixed in /repo (fix: commit).
// Copy into /repo/api/dns as zz_c19_friendcase_test.go and run
//   go test -vet=off -count=1 -run ZZC19FriendCase ./api/dns/

import (
	"net"
	"net/netip"
	"testing"
	"time"

	mdns "github.com/miekg/dns"

	"github.com/mycoria/mycoria/config"
	"github.com/mycoria/mycoria/m"
	"github.com/mycoria/mycoria/state"
	"github.com/mycoria/mycoria/storage"
	"github.com/mycoria/mycoria/tun"
)

type zzC19Instance struct {
	cfg *config.Config
}

func (i *zzC19Instance) Version() string        { return "demo" }
func (i *zzC19Instance) Config() *config.Config { return i.cfg }
func (i *zzC19Instance) Identity() *m.Address   { return nil }
func (i *zzC19Instance) State() *state.State    { return nil }
func (i *zzC19Instance) TunDevice() *tun.Device { return nil }

// zzC19Conn is a net.PacketConn that goes nowhere.
type zzC19Conn struct{}

func (zzC19Conn) ReadFrom([]byte) (int, net.Addr, error) { select {} }
func (zzC19Conn) WriteTo(b []byte, _ net.Addr) (int, error) {
	return len(b), nil
}
func (zzC19Conn) Close() error                     { return nil }
func (zzC19Conn) LocalAddr() net.Addr              { return &net.UDPAddr{} }
func (zzC19Conn) SetDeadline(time.Time) error      { return nil }
func (zzC19Conn) SetReadDeadline(time.Time) error  { return nil }
func (zzC19Conn) SetWriteDeadline(time.Time) error { return nil }

// zzC19Writer records the reply.
type zzC19Writer struct {
	reply *mdns.Msg
}

func (w *zzC19Writer) LocalAddr() net.Addr  { return &net.UDPAddr{} }
func (w *zzC19Writer) RemoteAddr() net.Addr { return &net.UDPAddr{} }
func (w *zzC19Writer) WriteMsg(r *mdns.Msg) error {
	w.reply = r
	return nil
}
func (w *zzC19Writer) Write(b []byte) (int, error) { return len(b), nil }
func (w *zzC19Writer) Close() error                { return nil }
func (w *zzC19Writer) TsigStatus() error           { return nil }
func (w *zzC19Writer) TsigTimersOnly(bool)         {}
func (w *zzC19Writer) Hijack()                     {}

func zzC19Query(t *testing.T, srv *Server, name string) (rcode int, addr netip.Addr) {
	t.Helper()

	q := new(mdns.Msg)
	q.SetQuestion(name, mdns.TypeAAAA)
	w := &zzC19Writer{}
	srv.ServeDNS(w, q)
	if w.reply == nil {
		t.Fatalf("query %q: no reply written", name)
	}
	for _, rr := range w.reply.Answer {
		if aaaa, ok := rr.(*mdns.AAAA); ok {
			addr, _ = netip.AddrFromSlice(aaaa.AAAA)
		}
	}
	return w.reply.Rcode, addr
}

func TestZZC19FriendCase(t *testing.T) {
	friendIP := netip.MustParseAddr("fd1f::a")
	cfg := config.MakeTestConfig(config.Store{
		FriendConfigs: []config.FriendConfig{{Name: "Alice", IP: friendIP.String()}},
	})
	mappings := storage.NewMemStorage()
	if err := mappings.SaveMapping("alice.myco", netip.MustParseAddr("fd1f::bad")); err != nil {
		t.Fatal(err)
	}
	srv, err := New(&zzC19Instance{cfg: cfg}, zzC19Conn{}, mappings)
	if err != nil {
		t.Fatal(err)
	}
	for _, name := range []string{"alice.myco.", "Alice.myco.", "ALICE.MYCO."} {
		rcode, addr := zzC19Query(t, srv, name)
		if rcode != mdns.RcodeSuccess || addr != friendIP {
			t.Errorf("query %q: rcode=%s addr=%v, want the friend's address %v", name, mdns.RcodeToString[rcode], addr, friendIP)
		}
	}
}
