package state

// Demonstration of the C01 defect reported by the "stored-record" harness (remarked on by an
// independent sub-agent): router records of the state file were used as they are. A record filed
// under address X that carries another router's key (or another address, or no identity at all)
// gave a session for X bound to that key - frames "from X" were then verified under a foreign key -
// and a record without identity made Session.Signing() dereference nil.
// Fixed in /repo (fix: commit): GetSession uses a stored identity only if it is for the requested
// address and its key hashes to it. Copy into /repo/state as zz_c01_storedrecord_test.go and run
//   go test -vet=off -count=1 -run ZZC01StoredRecord ./state/

import (
	"context"
	"testing"

	"github.com/mycoria/mycoria/config"
	"github.com/mycoria/mycoria/m"
	"github.com/mycoria/mycoria/storage"
)

type zzC01Inst struct{ id *m.Address }

func (i *zzC01Inst) Identity() *m.Address   { return i.id }
func (i *zzC01Inst) Config() *config.Config { return &config.Config{} }

func TestZZC01StoredRecord(t *testing.T) {
	own, _, err := m.GeneratePrivacyAddress(context.Background())
	if err != nil {
		t.Fatal(err)
	}
	victim, _, _ := m.GeneratePrivacyAddress(context.Background())
	attacker, _, _ := m.GeneratePrivacyAddress(context.Background())

	stg := storage.NewMemStorage()
	// the state file holds, under the victim's address, an identity with the attacker's key
	forged := victim.PublicAddress
	forged.PublicKey = attacker.PublicKey
	if err := stg.SaveRouter(&storage.StoredRouter{Address: &forged}); err != nil {
		t.Fatal(err)
	}
	st := New(&zzC01Inst{id: own}, stg)
	if s := st.GetSession(victim.IP); s != nil {
		if err := s.Address().VerifyAddress(); err != nil {
			t.Errorf("session for %s bound to a key that does not hash to it (%v)", victim.IP, err)
		}
	}
}
