package peering

// Demonstration of the C20 defect reported by the "managers" harness (and remarked on by an
// independent sub-agent): when StartListener fails (bind error, or a listen URL whose protocol
// this build does not have - the configuration parser accepts such URLs) checkListen logged
// ln.ID() of the nil listener it got back: nil dereference in the listen manager worker, on every
// restart of the worker, and the remaining listen URLs were never served.
// Fixed in /repo (fix: commit). Copy into /repo/peering as zz_c20_listen_test.go and run
//   go test -vet=off -count=1 -run ZZC20Listen ./peering/

import (
	"net/netip"
	"testing"

	"github.com/mycoria/mycoria/config"
	"github.com/mycoria/mycoria/m"
	"github.com/mycoria/mycoria/mgr"
)

type zzC20Inst struct {
	instance
	cfg *config.Config
}

func (i *zzC20Inst) Config() *config.Config { return i.cfg }

func TestZZC20Listen(t *testing.T) {
	cfg := config.MakeTestConfig(config.Store{Router: config.Router{Listen: []string{"kcp://:47369"}}})
	p := &Peering{
		mgr:       mgr.New("peering"),
		instance:  &zzC20Inst{cfg: cfg},
		links:     map[netip.Addr]Link{}, linksByLabel: map[m.SwitchLabel]Link{},
		listeners: map[string]Listener{}, protocols: map[string]Protocol{},
	}
	err := p.mgr.Do("listen manager round", func(w *mgr.WorkerCtx) error {
		defer func() {
			if r := recover(); r != nil {
				t.Errorf("listen manager panics on a listen URL it cannot serve: %v", r)
			}
		}()
		p.checkListen(w, map[string]string{})
		return nil
	})
	if err != nil {
		t.Fatal(err)
	}
}
