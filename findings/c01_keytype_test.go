package m

// Demonstration of the C01/C13 defect reported by the C01 "verify" harness (and remarked on by
// three independent sub-agents): VerifyAddressKey never looked at the key-type name or the key
// size, so a ground identity with an unknown key type and a 5-byte key was accepted wherever an
// identity is presented (peering request, first-contact ping header, hop record); a session and a
// stored record resulted and the following ed25519.Verify panicked ("bad public key length").
// Fixed in /repo (fix: commit). Copy into /repo/m as zz_c01_keytype_test.go and run
//   go test -vet=off -count=1 -run ZZC01KeyType ./m/

import (
	"crypto/ed25519"
	"testing"

	"github.com/mycoria/crop"
)

func TestZZC01KeyType(t *testing.T) {
	// grind a (type, key) pair whose digest starts with 0xfd: about 256 tries
	for _, tc := range []struct {
		typ  crop.KeyPairType
		size int
	}{{"Foo", 5}, {crop.KeyPairTypeEd25519, 31}, {crop.KeyPairTypeEd25519, 33}} {
		found := false
		for i := 0; i < 1<<20 && !found; i++ {
			key := make([]byte, tc.size)
			key[tc.size-1], key[tc.size-2], key[tc.size-3] = byte(i), byte(i>>8), byte(i>>16)
			ip, err := DigestToAddress(crop.BLAKE3, tc.typ, key, 0)
			if err != nil || !BaseNetPrefix.Contains(ip) {
				continue
			}
			found = true
			addr := &PublicAddress{IP: ip, Hash: crop.BLAKE3, Type: tc.typ, PublicKey: ed25519.PublicKey(key)}
			if err := addr.VerifyAddress(); err == nil {
				t.Errorf("identity with key type %q and a %d-byte key accepted for %s", tc.typ, tc.size, ip)
			}
		}
		if !found {
			t.Fatalf("no address found for %q/%d", tc.typ, tc.size)
		}
	}
}
