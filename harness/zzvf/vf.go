//go:build verif

// Package zzvf is the harness API of the /verif symbolic executor (gosmt).
// The engine intercepts every function of this package by name; the bodies
// below are the *native* semantics used when a counterexample is replayed
// against the real build: inputs come, in creation order, from the violation
// file named by $VF_REPLAY.
package zzvf

import (
	"encoding/json"
	"fmt"
	"os"
	"reflect"
	"testing"
	"time"
)

type inputRec struct {
	Kind string `json:"kind"`
	Val  uint64 `json:"val"`
	Data []byte `json:"data"`
	Env  bool   `json:"env"`
}

type violation struct {
	Kind   string     `json:"kind"`
	Tag    string     `json:"tag"`
	Inputs []inputRec `json:"inputs"`
}

type stopAssume struct{}
type stopAssert struct{ tag string }
type stopExhausted struct{}

var (
	cur    *violation
	cursor int
	params = map[string]int{}
)

func next(kind string) inputRec {
	if cur == nil || cursor >= len(cur.Inputs) {
		panic(stopExhausted{})
	}
	for cur.Inputs[cursor].Env { // values drawn by environment models: not consumed natively
		cursor++
		if cursor >= len(cur.Inputs) {
			panic(stopExhausted{})
		}
	}
	r := cur.Inputs[cursor]
	cursor++
	if r.Kind != kind {
		panic(fmt.Sprintf("vf replay: input %d is %q, harness asked for %q", cursor-1, r.Kind, kind))
	}
	return r
}

func U8() uint8   { return uint8(next("u8").Val) }
func U16() uint16 { return uint16(next("u16").Val) }
func U32() uint32 { return uint32(next("u32").Val) }
func U64() uint64 { return next("u64").Val }
func Int() int    { return int(next("int").Val) }
func Bool() bool  { return next("bool").Val != 0 }

// Bytes returns n fresh input bytes.
func Bytes(n int) []byte {
	r := next("bytes")
	b := make([]byte, n)
	copy(b, r.Data)
	return b
}

// FreshBytes returns n bytes produced by an idealised primitive (not an input).
func FreshBytes(n int) []byte { return make([]byte, n) }

// Havoc overwrites b with arbitrary bytes (natively: leaves it).
func Havoc(b []byte) {}

func Assume(c bool) {
	if !c {
		panic(stopAssume{})
	}
}

func Assert(c bool, tag string) {
	if !c {
		panic(stopAssert{tag})
	}
}

func Reach(tag string) {}

func Choose(n int) int { return int(next("choose").Val) }

func Param(name string) int { return params[name] }

// Symbolic reports whether the harness runs under the symbolic executor.
func Symbolic() bool { return false }

func Event(name string, args ...any) {}
func Count(name string) int         { return 0 }
func Note(s string)                 {}
func Stop()                         { panic(stopAssume{}) }

func UF(name string, args ...uint64) bool     { panic("vf.UF has no native semantics") }
func UF64(name string, args ...uint64) uint64 { panic("vf.UF64 has no native semantics") }

func SameObject(a, b []byte) bool {
	return cap(a) > 0 && cap(b) > 0 && &a[:cap(a)][cap(a)-1] == &b[:cap(b)][cap(b)-1]
}
func ObjID(a []byte) int { return 0 }
func Off(a []byte) int   { return 0 }

// RunReplay runs harness h natively on the recorded inputs and reports whether
// the recorded violation reproduces.
func RunReplay(t *testing.T, h func()) {
	path := os.Getenv("VF_REPLAY")
	b, err := os.ReadFile(path)
	if err != nil {
		t.Fatalf("VF-REPLAY: error reading %s: %v", path, err)
	}
	v := &violation{}
	if err := json.Unmarshal(b, v); err != nil {
		t.Fatalf("VF-REPLAY: error %v", err)
	}
	if ps := os.Getenv("VF_PARAMS"); ps != "" {
		json.Unmarshal([]byte(ps), &params)
	}
	var full struct {
		Params map[string]int `json:"params"`
	}
	json.Unmarshal(b, &full)
	for k, val := range full.Params {
		params[k] = val
	}
	cur, cursor = v, 0
	func() {
		defer func() {
			r := recover()
			switch x := r.(type) {
			case nil:
				fmt.Println("VF-REPLAY: not-reproduced (harness completed)")
			case stopAssume:
				fmt.Println("VF-REPLAY: not-reproduced (assumption failed natively)")
			case stopExhausted:
				fmt.Println("VF-REPLAY: not-reproduced (inputs exhausted)")
			case stopAssert:
				if v.Kind == "assert" && x.tag == v.Tag {
					fmt.Printf("VF-REPLAY: reproduced assert %s\n", x.tag)
				} else {
					fmt.Printf("VF-REPLAY: not-reproduced (other assertion %s failed)\n", x.tag)
				}
			default:
				if v.Kind == "panic" {
					fmt.Printf("VF-REPLAY: reproduced panic: %v\n", r)
				} else {
					fmt.Printf("VF-REPLAY: not-reproduced (panic: %v)\n", r)
				}
			}
		}()
		h()
	}()
}

// Time returns an arbitrary wall-clock instant (no monotonic reading).
func Time() time.Time { return time.Unix(int64(Int()), int64(Int())).UTC() }

// HeldDuring reports whether every occurrence of the named event happened
// while the given mutex was held (engine only).
func HeldDuring(lock any, event string) bool { return true }

// First64 returns the first 8 bytes of b as a big-endian integer (0 if shorter).
func First64(b []byte) uint64 {
	if len(b) < 8 {
		return 0
	}
	var v uint64
	for i := 0; i < 8; i++ {
		v = v<<8 | uint64(b[i])
	}
	return v
}

// Put64 stores v big-endian into b[:8].
func Put64(b []byte, v uint64) {
	for i := 0; i < 8; i++ {
		b[i] = byte(v >> (56 - 8*uint(i)))
	}
}

// TimeSec returns an arbitrary whole-second wall-clock instant.
// JSONCopy: *dst = what json.Unmarshal(json.Marshal(*src)) yields (dst, src pointers of one
// type); false = Marshal failed. Symbolically this is a type-directed model that follows
// encoding/json's field-selection rules on the real types; natively it is encoding/json.
func JSONCopy(dst, src any) bool {
	b, err := json.Marshal(src)
	if err != nil {
		return false
	}
	return json.Unmarshal(b, dst) == nil
}

func TimeSec() time.Time { return time.Unix(int64(Int()), 0).UTC() }

// FillAny makes every field of *ptr that can be built generically (scalars, strings, byte
// slices, one-element slices, pointers, nested structs, time.Time) non-empty and symbolic.
// It has no native counterpart (harnesses using it replay symbolically).
func FillAny(ptr any) { panic("vf.FillAny has no native semantics") }

// DeepEqual: structural equality of *a and *b as a JSON consumer sees it (nil and empty
// slices alike, pointers by pointee; maps and interfaces are not compared).
func DeepEqual(a, b any) bool { return reflect.DeepEqual(a, b) }

// GuardMap: every later access to map m is recorded as event "map:<name>" (for HeldDuring).
func GuardMap(m any, name string) {}

// Interleave registers an operation of another goroutine: symbolically it runs, at most once and
// to completion, just before one of the following lock acquisitions of the calling code (every
// choice, or never). Pass nil to cancel. Natively (replay) the recorded choice is consumed at ...
// nothing: native replay does not preempt; harnesses using it replay symbolically.
func Interleave(f func()) {}

// CBORCopy: *dst = what cbor.Unmarshal(cbor.Marshal(*src)) yields (symbolically: the type-directed
// field model of JSONCopy with `cbor` struct tags; natively: fxamacker/cbor is not imported here,
// harnesses using it replay symbolically).
func CBORCopy(dst, src any) bool { panic("vf.CBORCopy has no native semantics") }
