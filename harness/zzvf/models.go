//go:build verif

package zzvf

// Environment models substituted by name for cryptographic primitives. They
// are ordinary Go, executed symbolically by the engine. Idealisation: a
// primitive's output is fresh arbitrary bytes; acceptance is a fresh arbitrary
// bool; every call records exactly which bytes it was given so that harnesses
// can assert sender/receiver agreement and coverage on them.

import (
	"crypto"
	"crypto/cipher"
	"crypto/ed25519"
	"errors"
	"io"
)

func clone(b []byte) []byte {
	c := make([]byte, len(b))
	copy(c, b)
	return c
}

func assumeNotAllZero(b []byte) {
	var acc byte
	for i := 0; i < len(b); i++ {
		acc |= b[i]
	}
	Assume(acc != 0)
}

// ----- AEAD -----

type AEADCall struct {
	KeyID  int
	Nonce  []byte // snapshot
	AAD    []byte // snapshot
	In     []byte // snapshot of plaintext (Seal) / ciphertext+tag (Open)
	Out    []byte // snapshot of ciphertext+tag (Seal)
	OK     bool   // Open result
	DstOff int    // engine offset of dst inside its object
	InOff  int    // engine offset of the input inside its object
	SameBuf bool  // dst and input share one buffer
}

type AEAD struct {
	KeyID int
	K     uint64 // key identity when the key material is symbolic (first 8 key bytes)
}

var (
	Seals []*AEADCall
	Opens []*AEADCall
	ErrOpen = errors.New("chacha20poly1305: message authentication failed")
)

func NewAEAD(keyID int) cipher.AEAD { return &AEAD{KeyID: keyID} }

func (a *AEAD) NonceSize() int { return 12 }
func (a *AEAD) Overhead() int  { return 16 }

func sliceForAppend(in []byte, n int) (head, tail []byte) {
	if total := len(in) + n; cap(in) >= total {
		head = in[:total]
	} else {
		head = make([]byte, total)
		copy(head, in)
	}
	tail = head[len(in):]
	return
}

func (a *AEAD) Seal(dst, nonce, plaintext, additionalData []byte) []byte {
	if len(nonce) != 12 {
		panic("chacha20poly1305: bad nonce length passed to Seal")
	}
	c := &AEADCall{KeyID: a.KeyID, Nonce: clone(nonce), AAD: clone(additionalData), In: clone(plaintext),
		DstOff: Off(dst), InOff: Off(plaintext), SameBuf: SameObject(dst[:cap(dst)], plaintext)}
	ret, out := sliceForAppend(dst, len(plaintext)+16)
	Havoc(out)
	assumeNotAllZero(out[len(out)-16:][:16]) // an all-zero tag has probability 2^-128
	c.Out = clone(out)
	Seals = append(Seals, c)
	Event("aead.seal")
	return ret
}

func (a *AEAD) Open(dst, nonce, ciphertext, additionalData []byte) ([]byte, error) {
	if len(nonce) != 12 {
		panic("chacha20poly1305: bad nonce length passed to Open")
	}
	if len(ciphertext) < 16 {
		return nil, ErrOpen
	}
	c := &AEADCall{KeyID: a.KeyID, Nonce: clone(nonce), AAD: clone(additionalData), In: clone(ciphertext),
		DstOff: Off(dst), InOff: Off(ciphertext)}
	c.OK = Bool()
	Opens = append(Opens, c)
	Event("aead.open")
	if !c.OK {
		return nil, ErrOpen
	}
	ret, out := sliceForAppend(dst, len(ciphertext)-16)
	// ideal functionality: acceptance means this is a sealed tuple; hand back its plaintext when one of equal size was sealed under this key
	done := false
	for _, s := range Seals {
		if s.KeyID == a.KeyID && len(s.In) == len(out) && !done {
			copy(out, s.In)
			done = true
		}
	}
	if !done {
		Havoc(out)
	}
	return ret, nil
}

// ----- signatures -----

type SigCall struct {
	KeyID int
	Msg   []byte
	Sig   []byte
	Ctx   string
	OK    bool
}

var (
	Signs    []*SigCall
	Verifies []*SigCall
)

// key identity = first byte of the key material (harnesses use distinct constant keys)
func keyID(k []byte) int {
	if len(k) == 0 {
		return -1
	}
	return int(k[len(k)-1])
}

func Ed25519Sign(priv ed25519.PrivateKey, message []byte) []byte {
	sig := FreshBytes(64)
	assumeNotAllZero(sig) // an all-zero signature is not a valid Ed25519 signature encoding of any message
	Signs = append(Signs, &SigCall{KeyID: keyID(priv), Msg: clone(message), Sig: clone(sig)})
	Event("sig.sign")
	return sig
}

func Ed25519Verify(pub ed25519.PublicKey, message, sig []byte) bool {
	if len(pub) != ed25519.PublicKeySize {
		panic("ed25519: bad public key length") // as the real ed25519.Verify does
	}
	c := &SigCall{KeyID: keyID(pub), Msg: clone(message), Sig: clone(sig)}
	c.OK = Bool()
	Verifies = append(Verifies, c)
	Event("sig.verify")
	return c.OK
}

func ResetModels() {
	Seals, Opens, Signs, Verifies = nil, nil, nil, nil
}


// ----- key derivation and cipher construction from (symbolic) key material -----

func strID(s string) uint64 {
	var h uint64 = 1469598103934665603
	for i := 0; i < len(s); i++ {
		h = (h ^ uint64(s[i])) * 1099511628211
	}
	return h
}

func first64(b []byte) uint64 { return First64(b) }

// DeriveKey models blake3.DeriveKey: the first 8 bytes of every 32-byte block
// of output are an uninterpreted function of (context, key material, block);
// the remaining bytes are zero (only key identity matters to the models).
func DeriveKey(context string, material []byte, out []byte) {
	c, m := strID(context), first64(material)
	for i := range out {
		out[i] = 0
	}
	for blk := 0; blk*32 < len(out); blk++ {
		if blk*32+8 <= len(out) {
			k := UF64("blake3_derive", c, m, uint64(blk))
			// collision-free: different (context, material, block) give different keys - otherwise
			// the solver invents executions in which keys of different exchanges coincide
			for _, d := range derived {
				Assume(d.out != k || (d.c == c && d.m == m && d.blk == uint64(blk)))
			}
			derived = append(derived, derivedKey{c, m, uint64(blk), k})
			Put64(out[blk*32:], k)
		}
	}
}

type derivedKey struct{ c, m, blk, out uint64 }

var derived []derivedKey

// NewAEADFromKey models chacha20poly1305.New: the cipher is identified by its key.
func NewAEADFromKey(key []byte) (cipher.AEAD, error) {
	if len(key) != 32 {
		return nil, errors.New("chacha20poly1305: bad key length")
	}
	return &AEAD{KeyID: -1, K: first64(key)}, nil
}

// ----- Ed25519ctx (signatures with context) -----

type SigCtxCall struct {
	KeyID int
	Msg   []byte
	Sig   []byte
	Ctx   []byte
	OK    bool
}

var (
	CtxSigns    []*SigCtxCall
	CtxVerifies []*SigCtxCall
	ErrVerify   = errors.New("ed25519: invalid signature")
)

// Ed25519VerifyWithOptions models ed25519.VerifyWithOptions.
func Ed25519VerifyWithOptions(pub ed25519.PublicKey, message, sig []byte, opts *ed25519.Options) error {
	if len(pub) != ed25519.PublicKeySize {
		panic("ed25519: bad public key length") // as the real ed25519.VerifyWithOptions does
	}
	c := &SigCtxCall{KeyID: keyID(pub), Msg: clone(message), Sig: clone(sig), Ctx: []byte(opts.Context)}
	c.OK = Bool()
	CtxVerifies = append(CtxVerifies, c)
	if !c.OK {
		return ErrVerify
	}
	return nil
}

// Ed25519PrivSign models ed25519.PrivateKey.Sign (used with a context option).
func Ed25519PrivSign(priv ed25519.PrivateKey, rand io.Reader, message []byte, opts crypto.SignerOpts) ([]byte, error) {
	sig := FreshBytes(64)
	c := &SigCtxCall{KeyID: keyID(priv), Msg: clone(message), Sig: clone(sig)}
	if o, ok := opts.(*ed25519.Options); ok {
		c.Ctx = []byte(o.Context)
	}
	CtxSigns = append(CtxSigns, c)
	return sig, nil
}
