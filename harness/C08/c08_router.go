//go:build verif

package router

import (
	"time"
	"crypto/ed25519"
	"net/netip"

	"github.com/mycoria/crop"
	"github.com/mycoria/mycoria/config"
	"github.com/mycoria/mycoria/frame"
	"github.com/mycoria/mycoria/m"
	"github.com/mycoria/mycoria/peering"
	"github.com/mycoria/mycoria/state"
	"github.com/mycoria/mycoria/switchr"
	vf "github.com/mycoria/mycoria/zzvf"
)

const (
	kOwn8   = 70
	kKnown8 = 71
)

func vfKey8(id byte, n int) []byte {
	k := make([]byte, n)
	k[n-1] = id
	return k
}

var errVfCbor8 = vfErr8("cbor: cannot decode")

type vfErr8 string

func (e vfErr8) Error() string { return string(e) }

// ---- CBOR model ----
// Unmarshal: an arbitrary decoded value (or an error). Attachments name either
// a router we already have a session with, an unknown router (identity to be
// verified), or this router itself; they nest at most `depth` deep.
// Marshal: an opaque token that remembers the marshalled value.

var (
	vfOwnIP, vfKnownIP netip.Addr
	vfDepth, vfMaxDepth int
	vfAttached          []*AnnouncePingAttachment // decoded attachments, outermost first
	vfTokens8           []vfTok8
)

type vfTok8 struct {
	data []byte
	val  any
}

// vfPlain8: the interleaved second announcement of the re-entrancy scenario is a fixed, plain
// one (its content is not the subject; keeps the path count down)
var vfPlain8 bool

func vfCborUnmarshal8(data []byte, v any) error {
	if vfPlain8 {
		if dst, ok := v.(*AnnouncePingMsg); ok {
			dst.ReturnLabel = 77
			dst.Expires = time.Unix(1<<33, 0)
		}
		return nil
	}
	if vf.Bool() {
		return errVfCbor8
	}
	switch dst := v.(type) {
	case *AnnouncePingMsg:
		if vf.Bool() {
			dst.Info = &m.RouterInfo{}
		}
		dst.ReturnLabel = m.SwitchLabel(vf.U16())
		dst.Stub = vf.Bool()
		dst.Expires = vf.TimeSec()
	case *AnnouncePingAttachment:
		vfDepth++
		switch vf.Choose(3) {
		case 0:
			dst.Router = m.PublicAddress{IP: vfKnownIP}
		case 1:
			dst.Router = m.PublicAddress{IP: vfMycoAddr(), Hash: crop.BLAKE3, Type: crop.KeyPairTypeEd25519, PublicKey: ed25519.PublicKey(vf.Bytes(32))}
		default:
			dst.Router = m.PublicAddress{IP: vfOwnIP}
		}
		dst.Delay = vf.U16()
		dst.ForwardLabel = m.SwitchLabel(vf.U16())
		dst.ReturnLabel = m.SwitchLabel(vf.U16())
		if vfDepth < vfMaxDepth && vf.Bool() {
			n := vf.Int()
			vf.Assume(n >= 0 && n <= 200)
			dst.NextAttachment = vf.Bytes(n)
		}
		cp := *dst
		vfAttached = append(vfAttached, &cp)
	}
	return nil
}

func vfCborMarshal8(v any) ([]byte, error) {
	n := vf.Int()
	vf.Assume(n >= 1 && n <= 300)
	t := vf.FreshBytes(n)
	vfTokens8 = append(vfTokens8, vfTok8{t, v})
	return t, nil
}

// ---- recording models of the state / table effects ----

var (
	vfAddedRoutes []m.RoutingTableEntry
	vfInfoFor     []netip.Addr
)

func vfAddRoute8(rt *m.RoutingTable, e m.RoutingTableEntry) (bool, error) {
	vfAddedRoutes = append(vfAddedRoutes, e)
	if vfPlain8 {
		return true, nil
	}
	return vf.Bool(), nil
}

func vfAddInfo8(st *state.State, id netip.Addr, info *m.RouterInfo) error {
	vfInfoFor = append(vfInfoFor, id)
	return nil
}

// VfC08Announce: an announcement frame (already unsealed under its origin's
// session, as parsePingMsg guarantees: C07) with an arbitrary decoded body and
// an arbitrary chain of up to D decoded hop records arrives over a link.
func VfC08Announce() {
	vfMaxDepth = vf.Param("D")
	own, origin, known := vfMycoAddr(), vfMycoAddr(), vfMycoAddr()
	vf.Assume(own != origin && own != known && origin != known)
	vfOwnIP, vfKnownIP = own, known
	id := &m.Address{PublicAddress: m.PublicAddress{IP: own, Hash: crop.BLAKE3, Type: crop.KeyPairTypeEd25519, PublicKey: ed25519.PublicKey(vfKey8(kOwn8, 32))}, PrivateKey: ed25519.PrivateKey(vfKey8(kOwn8, 64))}
	cfg := &config.Config{}
	race := vf.Param("RACE") == 1 // re-entrancy scenario: the configuration corners are the other harnesses' subject
	if !race {
		cfg.Router.Stub = vf.Bool()
		cfg.Router.Lite = vf.Bool()
	}
	inst := &vfRInst{id: id, cfg: cfg, builder: frame.NewFrameBuilder()}
	inst.builder.SetFrameMargins(12, 16)
	inst.st = state.VfNewState(&state.VfInstance{Id: id, Cfg: cfg},
		&m.PublicAddress{IP: origin, PublicKey: ed25519.PublicKey(vfKey8(72, 32))},
		&m.PublicAddress{IP: known, PublicKey: ed25519.PublicKey(vfKey8(kKnown8, 32))})
	recv := &peering.VfLink{Label: m.SwitchLabel(vf.U16()), PeerIP: vfMycoAddr(), Lat: vf.U16()}
	l2 := &peering.VfLink{Label: m.SwitchLabel(vf.U16()), PeerIP: vfMycoAddr(), IsLite: !race && vf.Bool()}
	l3 := &peering.VfLink{Label: m.SwitchLabel(vf.U16()), PeerIP: vfMycoAddr()}
	vf.Assume(recv.PeerIP != l2.PeerIP && recv.PeerIP != l3.PeerIP && l2.PeerIP != l3.PeerIP)
	vf.Assume(recv.PeerIP != own && l2.PeerIP != own && l3.PeerIP != own)
	vf.Assume(recv.Label != l2.Label && recv.Label != l3.Label && l2.Label != l3.Label)
	inst.peer = peering.VfNewPeering(nil, recv, l2, l3)
	inst.sw = switchr.VfNewSwitch(inst.peer, id)
	// the routing table is only consulted for announcements addressed to one router (forwarded towards it)
	r := &Router{instance: inst}
	h := NewAnnouncePingHandler(r)
	dst := m.RouterAddress
	if vf.Param("UNI") == 1 {
		dst = vfMycoAddr() // addressed to a single router instead of all routers
		r.table = m.VfTable(vf.Choose(2), 2, 2)
		vf.Reach("unicast-announcement")
	}

	na := vf.Int()
	vf.Assume(na >= 0 && na <= 200)
	apx := vf.Bytes(na)
	f, err := inst.builder.NewFrameV1(origin, dst, frame.RouterHopPingDeprecated, nil, vf.Bytes(8), apx)
	if err != nil {
		vf.Stop()
	}
	vf.Havoc(f.AuthData()) // the origin's signature: arbitrary bytes
	var sig0 [64]byte
	copy(sig0[:], f.AuthData())
	f.SetRecvLink(recv)
	before := make([]byte, len(f.MessageDataWithAuth()))
	copy(before, f.MessageDataWithAuth())

	// C16: the frame may have waited in the router's input queue while its receive link was closed
	// (Close marks the link closing, RemoveLink unregisters it and removes the routes via that peer)
	closedMeanwhile := vf.Param("CLOSED") == 1
	if closedMeanwhile {
		recv.Closing = true
		inst.peer.VfDrop(recv)
	}

	// C09: the router handles frames on several workers; while this announcement is being handled
	// another worker may handle a different one (a direct announcement of the known router over l3).
	// vf.Interleave runs that second Handle to completion just before one of the lock acquisitions
	// of the first (or never). Its recordings are set aside: every assertion below is about the
	// FIRST announcement and must hold whatever ran in between (the handler must be re-entrant).
	if race {
		f2, err2 := inst.builder.NewFrameV1(l3.PeerIP, dst, frame.RouterHopPingDeprecated, nil, vf.Bytes(8), nil)
		if err2 != nil {
			vf.Stop()
		}
		vf.Havoc(f2.AuthData())
		f2.SetRecvLink(l3)
		vf.Interleave(func() {
			sa, si, st, sat := vfAddedRoutes, vfInfoFor, vfTokens8, vfAttached
			sv, ss, sd := vf.CtxVerifies, vf.CtxSigns, vfDepth
			sl2s, sl2p, srs, srp := l2.Sent, l2.Prio, recv.Sent, recv.Prio
			vfPlain8 = true
			_ = h.Handle(vfW, f2, &PingHeader{}, f2.MessageData())
			vfPlain8 = false
			vfAddedRoutes, vfInfoFor, vfTokens8, vfAttached = sa, si, st, sat
			vf.CtxVerifies, vf.CtxSigns, vfDepth = sv, ss, sd
			l2.Sent, l2.Prio, recv.Sent, recv.Prio = sl2s, sl2p, srs, srp
			vf.Reach("interleaved")
		})
	}

	err = h.Handle(vfW, f, &PingHeader{}, f.MessageData())
	if race {
		vf.Interleave(nil)
	}

	if closedMeanwhile {
		// nothing removes a route added now: direct-peer routes never expire and the removal for
		// this peer has already happened
		vf.Assert(len(vfAddedRoutes) == 0, "route-added-via-a-link-that-is-closed-and-unregistered")
		vf.Reach("handled-after-close")
	}

	// ---- every hop record that was used verified, with this announcement's context, under its router's key ----
	routeAdded := len(vfAddedRoutes) > 0
	sent := len(l2.Sent) + len(l2.Prio) + len(l3.Sent) + len(l3.Prio) + len(recv.Sent) + len(recv.Prio)
	if routeAdded || sent > 0 || len(vfInfoFor) > 0 {
		nh := len(vfAttached)
		vf.Assert(len(vf.CtxVerifies) == nh, "hop-record-used-without-verification")
		o16 := origin.As16()
		for i, a := range vfAttached {
			v := vf.CtxVerifies[i]
			vf.Assert(v.OK, "unverified-hop-record-used")
			// the key is the one bound to the record's address in the session store (stored earlier, or
			// created from an address-verified record of this chain)
			sess := inst.st.VfPeerSession(a.Router.IP)
			vf.Assert(sess != nil && sess.Address().IP == a.Router.IP, "hop-record-without-session-for-its-address")
			vf.Assert(v.KeyID == int(sess.Address().PublicKey[31]), "hop-record-verified-under-other-key")
			if a.Router.IP != known && a.Router.IP != origin {
				vf.Assert(len(m.VfDigests()) >= 1, "unknown-hop-router-accepted-without-address-check")
			}
			vf.Assert(len(v.Ctx) == 88, "context-length")
			k := vf.Int()
			vf.Assume(k >= 0 && k < 16)
			vf.Assert(v.Ctx[k] == o16[k], "context-without-origin-address")
			j := vf.Int()
			vf.Assume(j >= 0 && j < 64)
			vf.Assert(v.Ctx[24+j] == sig0[j], "context-without-origin-signature")
			vf.Assert(a.Router.IP != own, "own-address-in-accepted-chain")
		}
		// the route: [self, hops outermost first, origin], next hop = delivering peer
		if routeAdded {
			e := vfAddedRoutes[0]
			vf.Assert(len(vfAddedRoutes) == 1 && e.DstIP == origin && e.NextHop == recv.PeerIP, "route-destination-or-next-hop")
			vf.Assert(len(e.Path.Hops) == nh+2, "route-hop-count")
			vf.Assert(e.Path.Hops[0].Router == own && e.Path.Hops[0].ForwardLabel == recv.Label && e.Path.Hops[0].Delay == recv.Lat, "route-first-hop")
			for i, a := range vfAttached {
				hp := e.Path.Hops[1+i]
				vf.Assert(hp.Router == a.Router.IP && hp.Delay == a.Delay && hp.ForwardLabel == a.ForwardLabel && hp.ReturnLabel == a.ReturnLabel, "route-hop-differs-from-signed-record")
			}
			vf.Assert(e.Path.Hops[nh+1].Router == origin, "route-last-hop")
			if nh == 0 {
				vf.Assert(origin == recv.PeerIP, "direct-announcement-from-non-peer-accepted")
				vf.Reach("route-direct")
			} else {
				vf.Assert(vfAttached[0].Router.IP == recv.PeerIP, "delivering-peer-is-not-outermost-signer")
				vf.Assert(e.Source == m.RouteSourceGossip, "gossip-route-source")
				vf.Reach("route-gossip")
			}
		}
		for _, x := range vfInfoFor {
			vf.Assert(x == origin, "router-info-stored-for-other-router")
		}
	}
	// ---- a stored record / session for a router first seen in a hop record exists only if its key hashed to its address ----
	for _, a := range vfAttached {
		if a.Router.IP == known || a.Router.IP == origin || a.Router.IP == own {
			continue
		}
		if inst.st.VfHasRouter(a.Router.IP) || inst.st.VfPeerSession(a.Router.IP) != nil {
			ip16 := a.Router.IP.As16()
			okd := false
			for _, d := range m.VfDigests() {
				same := true
				for i := 0; i < 16; i++ {
					if d[i] != ip16[i] {
						same = false
					}
				}
				if same {
					okd = true
				}
			}
			vf.Assert(okd, "hop-router-stored-without-verified-address")
		}
	}
	// ---- forwarding: filter and content ----
	vf.Assert(len(recv.Sent)+len(recv.Prio) == 0, "forwarded-back-to-receiving-link")
	if sent > 0 {
		vf.Assert(routeAdded && !cfg.Router.Stub && err == nil, "forwarded-without-adding-route")
		for _, l := range []*peering.VfLink{l2, l3} {
			for _, sf := range append(append([]frame.Frame{}, l.Sent...), l.Prio...) {
				vf.Assert(l.PeerIP != origin, "forwarded-to-origin")
				vf.Assert(!l.IsLite || cfg.Router.Lite, "forwarded-to-lite-peer")
				for _, a := range vfAttached {
					vf.Assert(l.PeerIP != a.Router.IP, "forwarded-to-router-already-in-chain")
				}
				// body and origin signature untouched
				fd := sf.MessageDataWithAuth()
				vf.Assert(len(fd) == len(before), "forwarded-body-length")
				q := vf.Int()
				vf.Assume(q >= 0 && q < len(before))
				vf.Assert(fd[q] == before[q], "forwarded-body-or-signature-changed")
				vf.Assert(sf.SrcIP() == origin, "forwarded-source-changed")
			}
		}
		// the new record: own address, receive latency/label, send label, previous appendix verbatim, signed with the same context
		vf.Assert(len(vf.CtxSigns) == sent && len(vfTokens8) >= sent, "forwarded-without-signing")
		s := vf.CtxSigns[0]
		vf.Assert(s.KeyID == kOwn8 && len(s.Ctx) == 88, "record-signed-with-other-key-or-context")
		j := vf.Int()
		vf.Assume(j >= 0 && j < 64)
		vf.Assert(s.Ctx[24+j] == sig0[j], "record-context-without-origin-signature")
		at := vfTokens8[len(vfTokens8)-1].val.(AnnouncePingAttachment)
		vf.Assert(at.Router.IP == own && at.Delay == recv.Lat && at.ForwardLabel == recv.Label, "new-record-fields")
		vf.Assert(len(at.NextAttachment) == na, "new-record-drops-previous-records")
		vf.Reach("forwarded")
	}
	if err != nil {
		vf.Reach("rejected")
	}
}
