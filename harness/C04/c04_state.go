//go:build verif

package state

import (
	"time"

	vf "github.com/mycoria/mycoria/zzvf"
)

// VfC04KeyAgreement: the three-message key exchange as the peering handshake
// drives it (client share in the response, server share in the ack), then
// both ends derive the link-layer session: each end's out key is the other's
// in key, the two directions differ, and the derived link keys differ from
// the end-to-end keys.
func VfC04KeyAgreement() {
	c, s := NewEncryptionSession(), NewEncryptionSession()
	ck, ct, err := c.InitKeyClientStart()
	vf.Assert(err == nil, "client-start")
	sk, stt, err := s.InitKeyServer(ck, ct)
	if err != nil {
		vf.Reach("derived-keys-faulty")
		return
	}
	err = c.InitKeyClientComplete(sk, stt)
	if err != nil {
		vf.Reach("derived-keys-faulty")
		return
	}
	cin, cout, cset := c.VfKeys()
	sin, sout, sset := s.VfKeys()
	vf.Assert(cset && sset && c.IsSetUp() && s.IsSetUp(), "not-set-up")
	vf.Assert(cout == sin && sout == cin, "end-to-end-keys-do-not-match")
	vf.Assert(cin != cout, "both-directions-share-a-key")
	cl, err1 := c.DeriveSessionFromKX(true, "link layer crypt")
	sl, err2 := s.DeriveSessionFromKX(false, "link layer crypt")
	if err1 != nil || err2 != nil {
		vf.Reach("derived-keys-faulty")
		return
	}
	clin, clout, _ := cl.VfKeys()
	slin, slout, _ := sl.VfKeys()
	vf.Assert(clout == slin && slout == clin, "link-keys-do-not-match")
	vf.Assert(clin != clout, "link-directions-share-a-key")
	vf.Reach("agreed")
}

// VfClock is the logical clock of the C04 session harness: honest routers
// stamp their frames in creation order (concrete, strictly increasing).
var VfClock func() time.Time

// vfClockNext models TimeSequenceHandler.Next with that clock.
func vfClockNext(sh *TimeSequenceHandler) time.Time {
	t := VfClock()
	sh.out = t
	return t
}
