//go:build verif

package peering

import (
	"crypto/ed25519"
	"errors"
	"hash"
	"net/netip"
	"time"

	"github.com/mycoria/crop"
	"github.com/mycoria/mycoria/config"
	"github.com/mycoria/mycoria/frame"
	"github.com/mycoria/mycoria/m"
	"github.com/mycoria/mycoria/state"
	vf "github.com/mycoria/mycoria/zzvf"
)

// ---- C04 "session": the handshake as a whole against an active attacker ----
//
// Two honest routers V and P run the REAL handshake code (createPeeringRequest,
// peeringRequestState.handle and below, frames parsed from wire bytes). The
// attacker owns the wire and a router identity E of its own. It knows every
// frame of an earlier, completed connection between V and P and every frame
// the two live endpoints V1 and P1 emit; in each of K steps it delivers to V1
// or P1 one frame of its choice: a recorded frame (unchanged, or with one
// byte of an address, the body, the signature flipped, or truncated) or a
// frame it builds and signs itself (request / response / ack, naming itself or
// P, with a fresh challenge or one copied from a live endpoint).
//
// Ideal primitives with *decidable equality* (unlike the recording models of
// the per-handler harnesses): a signature verifies iff exactly these bytes
// were signed under that key; a CBOR body decodes iff it is a body somebody
// encoded (decoding into another message type copies the fields the two types
// share, as the real codec does); the hash is collision free and cannot be
// guessed without its input; fresh challenges differ from earlier ones.

const (
	vfSV = 0
	vfSP = 1
	vfSE = 2
)

func vfSKeyID(who int) byte { return byte(80 + who) }

func vfSAddr(who int) netip.Addr {
	a := [16]byte{0xfd, 0x10}
	a[15] = byte(who + 1)
	return netip.AddrFrom16(a)
}

func vfSPub(who int) ed25519.PublicKey   { return ed25519.PublicKey(vfKey4(vfSKeyID(who), 32)) }
func vfSPriv(who int) ed25519.PrivateKey { return ed25519.PrivateKey(vfKey4(vfSKeyID(who), 64)) }

func vfSIdentity(who int) m.PublicAddress {
	return m.PublicAddress{IP: vfSAddr(who), Hash: crop.BLAKE3, Type: crop.KeyPairTypeEd25519, PublicKey: vfSPub(who)}
}

func vfSClone(b []byte) []byte {
	c := make([]byte, len(b))
	copy(c, b)
	return c
}

// vfSEq: byte equality without a branch per byte (lengths are concrete).
func vfSEq(a, b []byte) bool {
	if len(a) != len(b) {
		return false
	}
	var d byte
	for i := range a {
		d |= a[i] ^ b[i]
	}
	return d == 0
}

// ---- ideal signatures ----

type vfSSigRec struct {
	key      byte
	msg, sig []byte
}

var vfSSigs []vfSSigRec

func vfSSign(priv ed25519.PrivateKey, message []byte) []byte {
	sig := make([]byte, 64)
	sig[0], sig[1] = 0x51, byte(len(vfSSigs)+1)
	vfSSigs = append(vfSSigs, vfSSigRec{priv[len(priv)-1], vfSClone(message), sig})
	return vfSClone(sig)
}

func vfSVerify(pub ed25519.PublicKey, message, sig []byte) bool {
	if len(pub) != 32 {
		return false
	}
	for _, s := range vfSSigs {
		if vfSEq(s.sig, sig) {
			return s.key == pub[31] && vfSEq(s.msg, message)
		}
	}
	return false
}

// ---- ideal address binding (VerifyAddress itself is C01) ----

var errVfSAddr = vfErr4("vf: address is not the hash of this key")

func vfSVerifyAddress(a *m.PublicAddress) error {
	for who := 0; who < 3; who++ {
		if a.IP == vfSAddr(who) && len(a.PublicKey) == 32 && a.PublicKey[31] == vfSKeyID(who) {
			return nil
		}
	}
	return errVfSAddr
}

// ---- ideal CBOR ----

type vfSTok struct {
	data []byte
	val  any
}

var (
	vfSToks    []vfSTok
	vfSLastReq *peeringRequest
)

func vfSMarshal(v any) ([]byte, error) {
	var val any
	switch x := v.(type) {
	case *peeringRequest:
		cp := *x
		cp.Challenge = vfSClone(x.Challenge)
		val = &cp
	case *peeringResponse:
		cp := *x
		cp.Challenge, cp.UniverseAuth, cp.KeyExchange = vfSClone(x.Challenge), vfSClone(x.UniverseAuth), vfSClone(x.KeyExchange)
		val = &cp
	case *peeringAck:
		cp := *x
		cp.KeyExchange = vfSClone(x.KeyExchange)
		val = &cp
	case *peeringErr:
		cp := *x
		val = &cp
	default:
		vf.Assert(false, "session-marshal-unknown-type")
	}
	t := make([]byte, 24)
	t[0], t[1] = 0xd9, byte(len(vfSToks)+1)
	vfSToks = append(vfSToks, vfSTok{t, val})
	return vfSClone(t), nil
}

func vfSNonEmpty(b []byte) []byte {
	if len(b) == 0 {
		return nil
	}
	return vfSClone(b)
}

// vfSUnmarshal decodes what was encoded; into another message type it copies
// the fields whose CBOR keys the two types share (c, kx, kxt, err).
func vfSUnmarshal(data []byte, v any) error {
	for _, t := range vfSToks {
		if vfSEq(t.data, data) {
			var c, kx []byte
			var kxt, e string
			switch src := t.val.(type) {
			case *peeringRequest:
				c = src.Challenge
			case *peeringResponse:
				c, kx, kxt, e = src.Challenge, src.KeyExchange, src.KeyExchangeType, src.Err
			case *peeringAck:
				kx, kxt, e = src.KeyExchange, src.KeyExchangeType, src.Err
			case *peeringErr:
				e = src.Err
			}
			switch dst := v.(type) {
			case *peeringRequest:
				if src, ok := t.val.(*peeringRequest); ok {
					*dst = *src
				}
				dst.Challenge = vfSNonEmpty(c)
				cp := *dst
				vfSLastReq = &cp
			case *peeringResponse:
				if src, ok := t.val.(*peeringResponse); ok {
					dst.UniverseAuth = vfSNonEmpty(src.UniverseAuth)
				}
				dst.Challenge, dst.KeyExchange, dst.KeyExchangeType, dst.Err = vfSNonEmpty(c), vfSNonEmpty(kx), kxt, e
			case *peeringAck:
				if src, ok := t.val.(*peeringAck); ok {
					dst.Ack = src.Ack
				}
				dst.KeyExchange, dst.KeyExchangeType, dst.Err = vfSNonEmpty(kx), kxt, e
			case *peeringErr:
				dst.Err = e
			default:
				return errVfCbor4
			}
			return nil
		}
	}
	return errVfCbor4
}

// ---- ideal hash: collision free, not guessable ----

type vfSHasher struct{ buf []byte }

type vfSDigest struct{ in, digest []byte }

var (
	vfSDigests []vfSDigest
	vfSGuesses [][]byte
)

func vfSHashNew(h crop.Hash) hash.Hash { return &vfSHasher{} }

func (h *vfSHasher) Write(p []byte) (int, error) { h.buf = append(h.buf, p...); return len(p), nil }
func (h *vfSHasher) Reset()                      { h.buf = nil }
func (h *vfSHasher) Size() int                   { return 32 }
func (h *vfSHasher) BlockSize() int              { return 64 }
func (h *vfSHasher) Sum(b []byte) []byte {
	in := vfSClone(h.buf)
	for _, r := range vfSDigests {
		if vfSEq(r.in, in) {
			return append(b, r.digest...)
		}
	}
	d := vf.FreshBytes(32)
	for _, r := range vfSDigests {
		vf.Assume(vf.First64(d) != vf.First64(r.digest)) // no collisions
	}
	for _, g := range vfSGuesses {
		vf.Assume(vf.First64(d) != vf.First64(g)) // not guessed by somebody who never had the input
	}
	vfSDigests = append(vfSDigests, vfSDigest{in, d})
	return append(b, d...)
}

// ---- time: Round is the identity on the whole-second clock of the engine ----

func vfSRound(t time.Time, d time.Duration) time.Time { return t }

// honest routers read one logical clock: concrete, strictly increasing with every reading
// (frames of honest routers are time-stamped in creation order; the attacker's own frames carry any time)
var vfSTick int64

func vfSNow() time.Time {
	vfSTick++
	return time.Unix(1700000000+vfSTick, 0).UTC()
}

// ---- the world ----

type vfSRouter struct {
	who int
	cfg *config.Config
	w   *vfWorld4
}

func vfSNewRouter(who int, universe, secret string) *vfSRouter {
	r := &vfSRouter{who: who, cfg: &config.Config{}}
	r.cfg.Router.Universe = universe
	r.cfg.Router.UniverseSecret = secret
	r.reset()
	return r
}

// reset gives the router fresh in-memory state (a restart keeps only its identity and configuration).
func (r *vfSRouter) reset() {
	ip := vfSAddr(r.who)
	id := &m.Address{PublicAddress: vfSIdentity(r.who), PrivateKey: vfSPriv(r.who)}
	b := frame.NewFrameBuilder()
	b.SetFrameMargins(FrameOffset, FrameOverhead)
	w := &vfWorld4{own: ip, cfg: r.cfg}
	w.inst = &vfInstance{builder: b, id: id, cfg: r.cfg}
	w.inst.st = state.VfNewState(&state.VfInstance{Id: id, Cfg: r.cfg})
	w.p = &Peering{instance: w.inst, links: map[netip.Addr]Link{}, linksByLabel: map[m.SwitchLabel]Link{}}
	r.w = w
}

type vfSMsg struct {
	data []byte
	from int
}

type vfSEnd struct {
	r       *vfSRouter
	st      *peeringRequestState
	reqSeen *peeringRequest // the request this endpoint accepted
	reqN    int             // pool index of its own request
}

var (
	vfSPool       []vfSMsg
	vfSChallenges [][]byte
)

func vfSWire(f frame.Frame, from int) int {
	data, err := f.FrameDataWithMargins(2, 0)
	vf.Assert(err == nil, "session-frame-margins")
	vfSPool = append(vfSPool, vfSMsg{vfSClone(data[2:]), from})
	f.ReturnToPool()
	return len(vfSPool) - 1
}

// vfSStart: a router opens its side of a connection (both sides send a request at once).
func vfSStart(r *vfSRouter, client bool) *vfSEnd {
	st, f, err := r.w.p.createPeeringRequest(client)
	vf.Assert(err == nil, "session-create-request")
	for _, c := range vfSChallenges {
		vf.Assume(vf.First64(st.challenge) != vf.First64(c)) // 32 fresh random bytes: never seen before
	}
	vfSChallenges = append(vfSChallenges, st.challenge)
	e := &vfSEnd{r: r, st: st}
	e.reqN = vfSWire(f, r.who)
	return e
}

// vfSDeliver hands wire bytes to an endpoint the way handleSetupMessages does:
// parse, handle, write the response. false = the endpoint aborted.
func vfSDeliver(e *vfSEnd, wire []byte) bool {
	b := e.r.w.inst.builder
	buf := b.GetPooledSlice(len(wire) + 2)
	copy(buf[2:], wire)
	f, err := b.ParseFrame(buf[2:2+len(wire)], buf, 2)
	if err != nil {
		return false
	}
	step0 := e.st.step
	vfSLastReq = nil
	resp, err := e.st.handle(f)
	if err != nil {
		vfSFaulty = false
		for u := err; u != nil; u = errors.Unwrap(u) {
			if u.Error() == "derived keys are faulty" {
				vfSFaulty = true
			}
		}
		return false
	}
	if step0 == 1 {
		e.reqSeen = vfSLastReq
	}
	if resp != nil {
		vfSWire(resp, e.r.who)
	}
	return true
}

// vfSHonest runs one complete honest connection between two routers.
func vfSHonest(a, b *vfSRouter, aClient bool) (*vfSEnd, *vfSEnd) {
	ea := vfSStart(a, aClient)
	eb := vfSStart(b, !aClient)
	n0 := len(vfSPool)
	ok := vfSDeliver(ea, vfSPool[eb.reqN].data)      // -> a's response at n0
	ok = ok && vfSDeliver(eb, vfSPool[ea.reqN].data) // -> b's response at n0+1
	ok = ok && vfSDeliver(ea, vfSPool[n0+1].data)    // -> a's ack at n0+2
	ok = ok && vfSDeliver(eb, vfSPool[n0].data)      // -> b's ack at n0+3
	ok = ok && vfSDeliver(ea, vfSPool[n0+3].data)
	ok = ok && vfSDeliver(eb, vfSPool[n0+2].data)
	// "an earlier connection that completed": the only way the honest run can fail in this model
	// is a collision of derived keys (initFinalize's 'derived keys are faulty'), which is assumed away
	vf.Assume(ok && ea.st.step == 4 && eb.st.step == 4)
	vf.Reach("earlier-connection-completed")
	return ea, eb
}

// vfSCraft: a frame the attacker builds and signs with its own key E.
// kind 0 request, 1 response, 2 ack. Everything the attacker is free to pick
// is symbolic: which router the frame names (itself or an honest one - it can
// only sign as itself), which key it presents, the challenge (any bytes: fresh
// or copied from whatever it saw), the key share.
func vfSCraft(kind int, t *vfSEnd, universe, secret string, insider bool) []byte {
	claim, kid := vf.U8(), vf.U8()
	vf.Assume(claim < 3 && kid < 3)
	a := [16]byte{0xfd, 0x10}
	a[15] = claim + 1
	src := netip.AddrFrom16(a)
	pub := make([]byte, 32)
	pub[31] = 80 + kid
	ident := m.PublicAddress{IP: src, Hash: crop.BLAKE3, Type: crop.KeyPairTypeEd25519, PublicKey: ed25519.PublicKey(pub)}
	challenge := vf.Bytes(32)
	var body any
	dst := t.r.w.own
	switch kind {
	case 0:
		dst = m.RouterAddress
		body = &peeringRequest{RouterVersion: "vf", Universe: universe, Address: ident, Challenge: challenge, LinkVersion: 1}
	case 1:
		r := &peeringResponse{Challenge: challenge, KeyExchange: vf.Bytes(32), KeyExchangeType: "ECDH-X25519/BLAKE3"}
		if secret != "" {
			if insider {
				r.UniverseAuth = makeUniverseAuth(universe, secret, challenge, t.r.w.own, src)
			} else {
				g := vf.Bytes(32)
				vfSGuesses = append(vfSGuesses, g)
				for _, d := range vfSDigests {
					vf.Assume(vf.First64(g) != vf.First64(d.digest) || vfSSeen(d.digest))
				}
				r.UniverseAuth = g
			}
		}
		body = r
	default:
		body = &peeringAck{Ack: true, KeyExchange: vf.Bytes(32), KeyExchangeType: "ECDH-X25519/BLAKE3"}
	}
	msg, _ := vfSMarshal(body)
	f, err := t.r.w.inst.builder.NewFrameV1(src, dst, frame.RouterPing, nil, msg, nil)
	vf.Assert(err == nil, "session-craft-frame")
	f.SetTTL(0)
	f.SetSequenceTime(vf.TimeSec())
	_ = f.SignRaw(vfSPriv(vfSE))
	f.SetTTL(1)
	data, _ := f.FrameDataWithMargins(2, 0)
	return vfSClone(data[2:])
}

// vfSSeen: the attacker has seen these digest bytes on the wire (a universe proof in a recorded response).
func vfSSeen(d []byte) bool {
	for _, t := range vfSToks {
		if r, ok := t.val.(*peeringResponse); ok && len(r.UniverseAuth) == len(d) && vfSEq(r.UniverseAuth, d) {
			return true
		}
	}
	return false
}

// vfSCheck: what must hold whenever endpoint x got past its response step
// (the remote end answered x's challenge) - and so also when it completed.
func vfSCheck(x, y *vfSEnd, insider bool) {
	if x.st.step < 3 {
		return
	}
	rem := x.st.remoteIP
	vf.Assert(x.reqSeen != nil && x.st.session != nil && x.st.session.Address().IP == rem, "session-does-not-belong-to-the-peer-named")
	vf.Assert(rem == y.r.w.own || rem == vfSAddr(vfSE), "peer-is-neither-of-the-routers-that-could-have-proved-a-key")
	vf.Assert(x.reqSeen.Universe == x.r.cfg.Router.Universe, "peer-named-another-universe")
	if rem == y.r.w.own {
		// the honest peer's real code, on ITS live endpoint, answered x's request with x's challenge
		vf.Assert(y.st.step >= 2 && y.reqSeen != nil && y.st.remoteIP == x.r.w.own, "honest-peer-never-answered-this-connection")
		vf.Assert(vfSEq(y.reqSeen.Challenge, x.st.challenge), "proof-was-not-on-this-connections-challenge")
		if x.r.cfg.Router.UniverseSecret != "" {
			vf.Assert(y.r.cfg.Router.UniverseSecret == x.r.cfg.Router.UniverseSecret && y.r.cfg.Router.Universe == x.r.cfg.Router.Universe, "peer-without-the-universe-secret-accepted")
		}
		vf.Reach("honest-peer-accepted")
	} else {
		if x.r.cfg.Router.UniverseSecret != "" {
			vf.Assert(insider, "outsider-accepted-into-universe-with-secret")
		}
		vf.Reach("attacker-accepted-under-its-own-identity")
	}
}

// VfC04Session: see the comment at the top of the file.
func VfC04Session() {
	vfSSigs, vfSToks, vfSDigests, vfSGuesses, vfSPool = nil, nil, nil, nil, nil
	vfSTick, vfSChallenges = 0, nil
	state.VfClock = vfSNow
	// configurations: universe / secret of V and P, and whether the attacker's router knows V's secret
	uV, sV, uP, sP := "u1", "", "u1", ""
	switch vf.Choose(vf.Param("CFG")) {
	case 0:
		sV, sP = "s3cret", "s3cret"
	case 1:
	case 2:
		sV, sP = "s3cret", "other"
	case 3:
		sV = "s3cret"
	case 4:
		sP = "s3cret"
	default:
		uP = "u2"
	}
	insider := sV != "" && vf.Bool()
	V, P := vfSNewRouter(vfSV, uV, sV), vfSNewRouter(vfSP, uP, sP)
	compatible := uV == uP && (sV == "" || sV == sP) && (sP == "" || sV == sP)

	// an earlier, completed connection (same roles) whose frames the attacker recorded
	vClient := vf.Bool()
	if compatible && vf.Param("HIST") == 1 {
		vfSHonest(V, P, vClient)
		if vf.Bool() {
			V.reset() // V restarted since: it no longer knows how recent P's frames were
			vf.Reach("victim-restarted")
		}
	}
	hist := len(vfSPool)

	// the live endpoints
	v1 := vfSStart(V, vClient)
	p1 := vfSStart(P, !vClient)
	ends := [2]*vfSEnd{v1, p1}
	tampered := false
	K := vf.Param("K")
	for step := 0; step < K; step++ {
		ti := vf.Choose(2)
		t := ends[ti]
		if t.st.step > 3 {
			vf.Stop()
		}
		var wire []byte
		src := vf.Choose(len(vfSPool) + 3)
		if src < len(vfSPool) {
			wire = vfSClone(vfSPool[src].data)
			if !tampered && vf.Param("TAMPER") == 1 && vf.Bool() {
				tampered = true
				switch vf.Choose(5) {
				case 0:
					wire[16+15] ^= 1 // source address
				case 1:
					wire[32+15] ^= 3 // destination address
				case 2:
					wire[len(wire)-64-24+1] ^= byte(1 + vf.Choose(3)) // body: becomes another body that exists, or none
				case 3:
					wire[len(wire)-64+1] ^= byte(1 + vf.Choose(3)) // signature: another signature that exists, or none
				default:
					wire = wire[:len(wire)-1]
				}
				vf.Reach("tampered-delivery")
			}
			if src < hist {
				vf.Reach("replayed-from-earlier-connection")
			} else if vfSPool[src].from == t.r.who {
				vf.Reach("reflected")
			}
		} else {
			wire = vfSCraft(src-len(vfSPool), t, uV, sV, insider)
		}
		if !vfSDeliver(t, wire) {
			// the endpoint aborted: its connection is closed, nothing is registered for it.
			// (The same attacker knowledge is reached by the schedule that skips this delivery.)
			vf.Assert(t.st.step < 4, "aborted-endpoint-counts-as-complete")
			vf.Reach("aborted")
			return
		}
		vfSCheck(v1, p1, insider)
		vfSCheck(p1, v1, insider)
	}
	if v1.st.step == 4 && p1.st.step == 4 && v1.st.remoteIP == P.w.own && p1.st.remoteIP == V.w.own {
		// both ends complete with each other: the link keys they derive match
		lv, err1 := v1.st.finalize()
		lp, err2 := p1.st.finalize()
		vf.Assert(err1 == nil && err2 == nil, "link-keys-not-derived")
		vin, vout, _ := lv.VfKeys()
		pin, pout, _ := lp.VfKeys()
		vf.Assert(vout == pin && pout == vin && vin != vout, "link-keys-do-not-match")
		vf.Reach("both-complete")
	}
}

// VfC04Honest: no attacker. Two honest routers with compatible configuration
// (no universe / a universe name only / a universe with the shared secret),
// either one dialling, frames delivered in order: both ends complete, each
// names the other, and the link keys they derive match. (The only failure the
// models allow is a collision of derived keys, which the real code refuses.)
func VfC04Honest() {
	vfSSigs, vfSToks, vfSDigests, vfSGuesses, vfSPool = nil, nil, nil, nil, nil
	vfSTick, vfSChallenges = 0, nil
	state.VfClock = vfSNow
	u, s := "", ""
	switch vf.Choose(4) {
	case 1:
		u = "u1"
	case 2:
		u, s = "u1", "s3cret"
	case 3:
		s = "s3cret" // a secret for the unnamed (default) universe: the configuration parser accepts it
	}
	V, P := vfSNewRouter(vfSV, u, s), vfSNewRouter(vfSP, u, s)
	V.cfg.Router.Lite, P.cfg.Router.Lite = vf.Bool(), vf.Bool()
	a, b := vfSStart(V, vf.Bool()), (*vfSEnd)(nil)
	b = vfSStart(P, !a.st.client)
	n0 := len(vfSPool)
	order := [6]struct {
		to  *vfSEnd
		msg int
	}{{a, b.reqN}, {b, a.reqN}, {a, n0 + 1}, {b, n0}, {a, n0 + 3}, {b, n0 + 2}}
	for i, d := range order {
		if !vfSDeliver(d.to, vfSPool[d.msg].data) {
			vf.Assert(vfSFaulty, "honest-handshake-aborted")
			vf.Reach("derived-keys-collide")
			return
		}
		_ = i
	}
	vf.Assert(a.st.step == 4 && b.st.step == 4, "honest-handshake-incomplete")
	vf.Assert(a.st.remoteIP == P.w.own && b.st.remoteIP == V.w.own, "ends-name-somebody-else")
	vf.Assert(a.st.remoteLite == P.cfg.Router.Lite && b.st.remoteLite == V.cfg.Router.Lite, "lite-flag-not-conveyed")
	la, err1 := a.st.finalize()
	lb, err2 := b.st.finalize()
	if err1 != nil || err2 != nil {
		vf.Reach("derived-keys-collide")
		return
	}
	ain, aout, _ := la.VfKeys()
	bin, bout, _ := lb.VfKeys()
	vf.Assert(aout == bin && bout == ain && ain != aout, "link-keys-do-not-match")
	vf.Reach("peered")
}

var vfSFaulty bool

// ---- both ends dial each other at the same time -------------------------------------------

type vfXEnd struct {
	e     *vfSEnd
	inbox []int // pool indices waiting, in wire order
	peer  *vfXEnd
	dead  bool // aborted: its connection is closed, nothing more is handled
	done  int  // messages handled
	fin   bool // finalize ran (handleSetup calls it once the handshake completed, before AddLink)
	link  *state.EncryptionSession
	ferr  error
}

func (x *vfXEnd) finalize() {
	if !x.fin {
		x.fin = true
		x.link, x.ferr = x.e.st.finalize()
	}
}

// VfC04CrossDial: no attacker; two honest routers V and P dial EACH OTHER at
// about the same time, so two connections run their handshakes concurrently
// (conn 1: V is the client; conn 2: P is the client). Each connection delivers
// its frames in order, but the two handshakes interleave arbitrarily at each
// router (each router handles its two connections on different goroutines);
// operations at different routers commute, so a schedule is the order in which
// V serves its two connections plus the order in which P does. Whatever the
// schedule: nothing panics, and a connection on which BOTH ends complete names
// the right peer on both sides and derives matching link keys ("when both ends
// complete ... traffic sealed by either link end unseals at the other").
func VfC04CrossDial() {
	vfSSigs, vfSToks, vfSDigests, vfSGuesses, vfSPool = nil, nil, nil, nil, nil
	vfSTick, vfSChallenges = 0, nil
	state.VfClock = vfSNow
	V, P := vfSNewRouter(vfSV, "", ""), vfSNewRouter(vfSP, "", "")
	v1, p1 := &vfXEnd{e: vfSStart(V, true)}, &vfXEnd{e: vfSStart(P, false)}
	v2, p2 := &vfXEnd{e: vfSStart(V, false)}, &vfXEnd{e: vfSStart(P, true)}
	v1.peer, p1.peer, v2.peer, p2.peer = p1, v1, p2, v2
	for _, x := range []*vfXEnd{v1, p1, v2, p2} {
		x.peer.inbox = append(x.peer.inbox, x.e.reqN)
	}
	routers := [2][2]*vfXEnd{{v1, v2}, {p1, p2}}
	// the order in which each router serves its two connections is chosen step by step
	var want [2]int // per router: which of its ends is served next (-1: not chosen yet)
	want[0], want[1] = -1, -1
	for steps := 0; steps < 12; steps++ {
		progressed := false
		for ri := 0; ri < 2; ri++ {
			a, b := routers[ri][0], routers[ri][1]
			aLeft := !a.dead && a.done < 3
			bLeft := !b.dead && b.done < 3
			if !aLeft && !bLeft {
				continue
			}
			if want[ri] < 0 {
				switch {
				case aLeft && bLeft:
					want[ri] = vf.Choose(2)
				case aLeft:
					want[ri] = 0
				default:
					want[ri] = 1
				}
			}
			x := routers[ri][want[ri]]
			if x.dead || x.done >= 3 {
				want[ri] = -1
				progressed = true
				continue
			}
			if len(x.inbox) == 0 {
				continue // this router waits for the frame it decided to serve next
			}
			n := x.inbox[0]
			x.inbox = x.inbox[1:]
			before := len(vfSPool)
			if !vfSDeliver(x.e, vfSPool[n].data) {
				x.dead = true
				// the connection is closed: the other end sees EOF and stops too
				x.peer.dead = true
				vf.Reach("connection-aborted")
			} else {
				x.done++
				if len(vfSPool) > before {
					x.peer.inbox = append(x.peer.inbox, len(vfSPool)-1)
				}
				// its setup goroutine goes on to finalize right away, or only after the
				// other connection's handlers have run
				if x.e.st.step == 4 && vf.Bool() {
					x.finalize()
				}
			}
			want[ri] = -1
			progressed = true
		}
		if !progressed {
			break
		}
	}
	// schedules in which a router insists on a frame that never comes are not executions
	for _, x := range []*vfXEnd{v1, p1, v2, p2} {
		vf.Assume(x.dead || x.done == 3 || len(x.inbox) == 0)
	}
	completed := 0
	for _, c := range [2][2]*vfXEnd{{v1, p1}, {v2, p2}} {
		a, b := c[0], c[1]
		if a.dead || b.dead || a.e.st.step != 4 || b.e.st.step != 4 {
			continue
		}
		completed++
		vf.Assert(a.e.st.remoteIP == P.w.own && b.e.st.remoteIP == V.w.own, "ends-name-somebody-else")
		a.finalize()
		b.finalize()
		if a.ferr != nil || b.ferr != nil {
			// finalize refuses (e.g. the key exchange state is gone): no link comes up on that end
			vf.Reach("finalize-refused")
			continue
		}
		ain, aout, _ := a.link.VfKeys()
		bin, bout, _ := b.link.VfKeys()
		vf.Assert(aout == bin && bout == ain && ain != aout, "cross-dial-link-keys-do-not-match")
		vf.Reach("connection-completed")
	}
	if completed == 2 {
		vf.Reach("both-connections-completed")
	}
	vf.Reach("done")
}
