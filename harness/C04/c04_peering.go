//go:build verif

package peering

import (
	"crypto/ed25519"
	"net/netip"

	"github.com/mycoria/crop"
	"github.com/mycoria/mycoria/config"
	"github.com/mycoria/mycoria/frame"
	"github.com/mycoria/mycoria/m"
	"github.com/mycoria/mycoria/state"
	vf "github.com/mycoria/mycoria/zzvf"
)

const kOwn4 = 80

func vfKey4(id byte, n int) []byte {
	k := make([]byte, n)
	k[n-1] = id
	return k
}

func vfAddr4() netip.Addr {
	var a [16]byte
	copy(a[:], vf.Bytes(16))
	a[0] = 0xfd
	return netip.AddrFrom16(a)
}

func vfI4(a, b bool) bool { return !a || b }

var errVfCbor4 = vfErr4("cbor: cannot decode")

type vfErr4 string

func (e vfErr4) Error() string { return string(e) }

// ---- CBOR model ----
var (
	vfSrc4    netip.Addr
	vfReq4    *peeringRequest
	vfResp4   *peeringResponse
	vfAck4    *peeringAck
	vfTokens4 []vfTok4
)

type vfTok4 struct {
	data []byte
	val  any
}

func vfUniverse() string { return []string{"", "u1", "u2", "U1"}[vf.Choose(4)] } // universe names are case sensitive

func vfCborUnmarshal4(data []byte, v any) error {
	if vf.Bool() {
		return errVfCbor4
	}
	switch dst := v.(type) {
	case *peeringRequest:
		dst.RouterVersion = "v1"
		dst.Universe = vfUniverse()
		dst.LiteMode = vf.Bool()
		dst.Address = m.PublicAddress{IP: vfSrc4, Hash: crop.BLAKE3, Type: crop.KeyPairTypeEd25519, PublicKey: ed25519.PublicKey(vf.Bytes(32))}
		if vf.Bool() {
			dst.Address.IP = vfAddr4() // an identity for some other address
		}
		n := vf.Int()
		vf.Assume(n >= 0 && n <= 40)
		dst.Challenge = vf.Bytes(n)
		dst.LinkVersion = 1 + vf.Choose(2)
		dst.TunMTU = vf.Int()
		cp := *dst
		vfReq4 = &cp
	case *peeringResponse:
		n := vf.Int()
		vf.Assume(n >= 0 && n <= 40)
		dst.Challenge = vf.Bytes(n)
		na := vf.Int()
		vf.Assume(na >= 0 && na <= 40)
		dst.UniverseAuth = vf.Bytes(na)
		if vf.Bool() {
			dst.KeyExchange = vf.Bytes(32)
			dst.KeyExchangeType = "ECDH-X25519/BLAKE3"
		}
		if vf.Bool() {
			dst.Err = "denied"
		}
		cp := *dst
		vfResp4 = &cp
	case *peeringAck:
		dst.Ack = vf.Bool()
		if vf.Bool() {
			dst.KeyExchange = vf.Bytes(32)
			dst.KeyExchangeType = "ECDH-X25519/BLAKE3"
		}
		if vf.Bool() {
			dst.Err = "denied"
		}
		cp := *dst
		vfAck4 = &cp
	}
	return nil
}

func vfCborMarshal4(v any) ([]byte, error) {
	n := vf.Int()
	vf.Assume(n >= 1 && n <= 200)
	t := vf.FreshBytes(n)
	vfTokens4 = append(vfTokens4, vfTok4{t, v})
	return t, nil
}

type vfWorld4 struct {
	own    netip.Addr
	cfg    *config.Config
	inst   *vfInstance
	p      *Peering
	secret bool
}

func vfWorld(knownPeer *m.PublicAddress) *vfWorld4 {
	w := &vfWorld4{own: vfAddr4(), cfg: &config.Config{}}
	w.cfg.Router.Universe = vfUniverse()
	w.secret = vf.Bool()
	if w.secret {
		w.cfg.Router.UniverseSecret = "s3cret"
	}
	id := &m.Address{PublicAddress: m.PublicAddress{IP: w.own, PublicKey: ed25519.PublicKey(vfKey4(kOwn4, 32))}, PrivateKey: ed25519.PrivateKey(vfKey4(kOwn4, 64))}
	b := frame.NewFrameBuilder()
	b.SetFrameMargins(FrameOffset, FrameOverhead)
	w.inst = &vfInstance{builder: b, id: id, cfg: w.cfg}
	if knownPeer != nil {
		w.inst.st = state.VfNewState(&state.VfInstance{Id: id, Cfg: w.cfg}, knownPeer)
	} else {
		w.inst.st = state.VfNewState(&state.VfInstance{Id: id, Cfg: w.cfg})
	}
	w.p = &Peering{instance: w.inst, links: map[netip.Addr]Link{}, linksByLabel: map[m.SwitchLabel]Link{}}
	return w
}

func vfFrame4(w *vfWorld4, src, dst netip.Addr) *frame.FrameV1 {
	mt := []frame.MessageType{frame.RouterPing, frame.RouterCtrl, frame.RouterHopPing}[vf.Choose(3)]
	f, err := w.inst.builder.NewFrameV1(src, dst, mt, nil, []byte("peering-message"), nil)
	if err != nil {
		vf.Stop()
	}
	vf.Havoc(f.AuthData())
	return f
}

// VfC04Request: handlePeeringRequest on an arbitrary frame with an arbitrary
// decoded request. It succeeds only if every admission condition holds, and
// then its reply echoes the received challenge, carries the universe proof iff
// a secret is configured, is addressed self -> remote and signed.
func VfC04Request() {
	src := vfAddr4()
	vfSrc4 = src
	var known *m.PublicAddress
	if vf.Bool() {
		known = &m.PublicAddress{IP: src, PublicKey: ed25519.PublicKey(vfKey4(81, 32))}
	}
	w := vfWorld(known)
	if vf.Bool() {
		src = w.own // a connection to ourselves
		vfSrc4 = src
	}
	live := vf.Bool()
	if live {
		w.p.links[src] = &VfLink{PeerIP: src, Label: 9}
	}
	st := &peeringRequestState{peering: w.p, step: 1 + vf.Choose(2), client: vf.Bool()}
	step0 := st.step
	in := vfFrame4(w, src, m.RouterAddress)
	mt := in.MessageType()
	resp, err := st.handlePeeringRequest(in)
	if err != nil {
		vf.Assert(resp == nil, "response-with-error")
		// a refused request leaves a session or stored record for its source only if the
		// presented key material hashed to that address (C01: no record for a rejected identity)
		if known == nil && (w.inst.st.VfHasRouter(src) || w.inst.st.VfPeerSession(src) != nil) {
			ds := m.VfDigests()
			vf.Assert(len(ds) >= 1, "record-stored-for-identity-that-was-not-verified")
			if len(ds) >= 1 {
				s16 := src.As16()
				q := vf.Int()
				vf.Assume(q >= 0 && q < 16)
				vf.Assert(ds[0][q] == s16[q], "record-stored-for-key-that-does-not-hash-to-source")
			}
			vf.Reach("refused-after-identity-stored")
		}
		vf.Reach("refused")
		return
	}
	r := vfReq4
	vf.Assert(step0 == 1, "request-accepted-in-wrong-step")
	vf.Assert(src != w.own, "request-from-self-accepted")
	vf.Assert(r != nil && r.Address.IP == src, "identity-for-other-address-accepted")
	vf.Assert(mt == frame.RouterPing, "non-signed-message-type-accepted")
	vf.Assert(!live, "second-link-to-connected-peer-accepted")
	vf.Assert(r.LinkVersion == 1, "unsupported-link-version-accepted")
	vf.Assert(r.Universe == w.cfg.Router.Universe, "other-universe-accepted")
	vf.Assert(len(r.Challenge) >= 16, "short-challenge-accepted")
	// identity: for a router we did not know, its key material hashed to its address first
	if known == nil {
		ds := m.VfDigests()
		vf.Assert(len(ds) >= 1, "unknown-identity-accepted-without-address-check")
		s16 := src.As16()
		q := vf.Int()
		vf.Assume(q >= 0 && q < 16)
		vf.Assert(ds[0][q] == s16[q], "identity-key-does-not-hash-to-address")
	}
	// possession: the request verified under the key bound to that address
	vf.Assert(len(vf.Verifies) == 1 && vf.Verifies[0].OK, "request-accepted-without-signature-check")
	wantKey := 81
	if known == nil {
		wantKey = int(r.Address.PublicKey[31])
	}
	vf.Assert(vf.Verifies[0].KeyID == wantKey, "request-verified-under-other-key")
	vf.Assert(st.session != nil && st.session.Address().IP == src && st.remoteIP == src, "state-names-other-peer")
	// the reply
	out := resp.(*frame.FrameV1)
	vf.Assert(out.SrcIP() == w.own && out.DstIP() == src, "reply-addresses")
	vf.Assert(len(vf.Signs) == 1 && vf.Signs[0].KeyID == kOwn4, "reply-not-signed-by-own-key")
	pr := vfTokens4[len(vfTokens4)-1].val.(*peeringResponse)
	vf.Assert(len(pr.Challenge) == len(r.Challenge), "reply-challenge-length")
	k := vf.Int()
	vf.Assume(k >= 0 && k < len(r.Challenge))
	vf.Assert(pr.Challenge[k] == r.Challenge[k], "reply-does-not-echo-challenge")
	hasAuth := len(pr.UniverseAuth) > 0
	// the requester demands the proof whenever IT has a secret (handlePeeringResponse), whether or
	// not the universe has a name: the responder supplies it whenever a secret is configured
	vf.Assert(hasAuth == w.secret, "universe-proof-presence")
	if hasAuth {
		// H(universe | challenge | secret | requester | responder)
		ins := m.VfDigestInputs()
		in4 := ins[len(ins)-1]
		nu := len(r.Universe)
		vf.Assert(len(in4) == nu+len(r.Challenge)+6+32, "universe-proof-input-length")
		vf.Assert(in4[nu+k] == r.Challenge[k], "universe-proof-not-over-received-challenge")
		rq, me := src.As16(), w.own.As16()
		j := vf.Int()
		vf.Assume(j >= 0 && j < 16)
		base := nu + len(r.Challenge) + 6
		vf.Assert(in4[base+j] == rq[j] && in4[base+16+j] == me[j], "universe-proof-address-order")
		vf.Reach("with-universe-proof")
	}
	vf.Assert(vfI4(st.client, len(pr.KeyExchange) > 0), "client-reply-without-key-share")
	vf.Reach("accepted")
}

// VfC04Response: handlePeeringResponse from the state reached after a request
// was accepted: succeeds only if the frame verified under the session fixed in
// step 1, is addressed remote -> self, carries no error, echoes our challenge
// and - with a universe secret - the proof computed over OUR challenge with
// requester(self)-then-responder(remote) order; a server needs the key share.
func VfC04Response() {
	remote := vfAddr4()
	w := vfWorld(&m.PublicAddress{IP: remote, PublicKey: ed25519.PublicKey(vfKey4(81, 32))})
	vf.Assume(remote != w.own)
	challenge := vf.Bytes(32)
	st := &peeringRequestState{peering: w.p, step: 2 + vf.Choose(2) - vf.Choose(2), client: vf.Bool(), session: w.inst.st.VfPeerSession(remote), remoteIP: remote, challenge: challenge}
	step0 := st.step
	src, dst := remote, w.own
	if vf.Bool() {
		src = vfAddr4()
	}
	if vf.Bool() {
		dst = vfAddr4()
	}
	in := vfFrame4(w, src, dst)
	mt := in.MessageType()
	resp, err := st.handlePeeringResponse(in)
	if err != nil {
		vf.Assert(resp == nil, "response-with-error")
		vf.Reach("refused")
		return
	}
	r := vfResp4
	vf.Assert(step0 == 2, "response-accepted-in-wrong-step")
	vf.Assert(len(vf.Verifies) == 1 && vf.Verifies[0].OK && vf.Verifies[0].KeyID == 81, "response-not-verified-under-session-key")
	vf.Assert(mt == frame.RouterPing && src == remote && dst == w.own, "response-type-or-addresses")
	vf.Assert(r.Err == "", "error-response-accepted")
	vf.Assert(len(r.Challenge) == 32, "challenge-length-mismatch-accepted")
	k := vf.Int()
	vf.Assume(k >= 0 && k < 32)
	vf.Assert(r.Challenge[k] == challenge[k], "wrong-challenge-accepted")
	if w.secret {
		ins, ds := m.VfDigestInputs(), m.VfDigests()
		vf.Assert(len(ins) == 1, "universe-proof-not-recomputed")
		in4, d := ins[0], ds[0]
		nu := len(w.cfg.Router.Universe)
		vf.Assert(len(in4) == nu+32+6+32, "universe-proof-input-length")
		vf.Assert(in4[nu+k] == challenge[k], "universe-proof-not-over-own-challenge")
		me, rm := w.own.As16(), remote.As16()
		j := vf.Int()
		vf.Assume(j >= 0 && j < 16)
		vf.Assert(in4[nu+32+6+j] == me[j] && in4[nu+32+6+16+j] == rm[j], "universe-proof-address-order")
		vf.Assert(len(r.UniverseAuth) == len(d), "universe-proof-length")
		x := vf.Int()
		vf.Assume(x >= 0 && x < len(d))
		vf.Assert(r.UniverseAuth[x] == d[x], "wrong-universe-proof-accepted")
		vf.Reach("with-universe-proof")
	}
	vf.Assert(vfI4(!st.client, len(r.KeyExchange) > 0 && r.KeyExchangeType != ""), "server-accepted-response-without-key-share")
	out := resp.(*frame.FrameV1)
	vf.Assert(out.SrcIP() == w.own && out.DstIP() == remote && len(vf.Signs) == 1 && vf.Signs[0].KeyID == kOwn4, "ack-addresses-or-signature")
	vf.Reach("accepted")
}

// VfC04Ack: handlePeeringAck likewise.
func VfC04Ack() {
	remote := vfAddr4()
	w := vfWorld(&m.PublicAddress{IP: remote, PublicKey: ed25519.PublicKey(vfKey4(81, 32))})
	vf.Assume(remote != w.own)
	st := &peeringRequestState{peering: w.p, step: 3 + vf.Choose(2) - vf.Choose(2), client: vf.Bool(), session: w.inst.st.VfPeerSession(remote), remoteIP: remote}
	if st.client {
		_, _, _ = st.session.Encryption().InitKeyClientStart()
	}
	step0 := st.step
	src, dst := remote, w.own
	if vf.Bool() {
		src = vfAddr4()
	}
	if vf.Bool() {
		dst = vfAddr4()
	}
	in := vfFrame4(w, src, dst)
	mt := in.MessageType()
	err := st.handlePeeringAck(in)
	if err != nil {
		vf.Reach("refused")
		return
	}
	r := vfAck4
	vf.Assert(step0 == 3, "ack-accepted-in-wrong-step")
	vf.Assert(len(vf.Verifies) == 1 && vf.Verifies[0].OK && vf.Verifies[0].KeyID == 81, "ack-not-verified-under-session-key")
	vf.Assert(mt == frame.RouterPing && src == remote && dst == w.own, "ack-type-or-addresses")
	vf.Assert(r.Err == "", "error-ack-accepted")
	vf.Assert(vfI4(st.client, len(r.KeyExchange) > 0 && r.KeyExchangeType != ""), "client-accepted-ack-without-key-share")
	vf.Reach("accepted")
}

// VfC04Handle: the step counter advances exactly on success.
func VfC04Handle() {
	remote := vfAddr4()
	vfSrc4 = remote
	w := vfWorld(&m.PublicAddress{IP: remote, PublicKey: ed25519.PublicKey(vfKey4(81, 32))})
	vf.Assume(remote != w.own)
	st := &peeringRequestState{peering: w.p, step: vf.Choose(5), client: vf.Bool(), session: w.inst.st.VfPeerSession(remote), remoteIP: remote, challenge: vf.Bytes(32)}
	if st.client {
		_, _, _ = st.session.Encryption().InitKeyClientStart() // a client has sent its key share in step 1
	}
	step0 := st.step
	in := vfFrame4(w, remote, w.own)
	_, err := st.handle(in)
	vf.Assert((err == nil) == (st.step == step0+1), "step-advanced-without-success")
	vf.Assert(vfI4(err != nil, st.step == step0), "step-changed-on-failure")
	vf.Assert(vfI4(err == nil, step0 >= 1 && step0 <= 3), "handled-in-invalid-step")
	if err == nil {
		vf.Reach("advanced")
	} else {
		vf.Reach("refused")
	}
}

// ---- link setup: a link is registered only after every step succeeded ----

var errVfSetup = vfErr4("vf: setup step failed")

func vfSetupMessages(link *LinkBase, client bool) (*peeringRequestState, error) {
	if vf.Bool() {
		vf.Event("setup.failed")
		return nil, errVfSetup
	}
	return vfSetupState, nil
}

var vfSetupState *peeringRequestState

func vfFinalize(st *peeringRequestState) (*state.EncryptionSession, error) {
	if vf.Bool() {
		vf.Event("setup.failed")
		return nil, errVfSetup
	}
	return state.VfEncSession(vf.NewAEAD(1), vf.NewAEAD(2)), nil
}

func vfAssignLabel(link *LinkBase) error {
	if vf.Bool() {
		vf.Event("setup.failed")
		return errVfSetup
	}
	link.switchLabel = 77
	return nil
}

// VfC04Setup: handleSetup registers the link only when the handshake, the key
// derivation and the label assignment all succeeded, under the peer address
// of the verified session; otherwise it closes the connection.
func VfC04Setup() {
	remote := vfAddr4()
	w := vfWorld(&m.PublicAddress{IP: remote, PublicKey: ed25519.PublicKey(vfKey4(81, 32))})
	w.inst.rt = m.NewRoutingTable(m.RoutingTableConfig{RouterIP: w.own})
	vfSetupState = &peeringRequestState{peering: w.p, session: w.inst.st.VfPeerSession(remote), remoteIP: remote, remoteLite: vf.Bool()}
	conn := &vfConn{}
	link := &LinkBase{conn: conn, peering: w.p, closed: make(chan struct{}), outgoing: vf.Bool()}
	l, err := link.handleSetup(nil)
	failed := vf.Count("setup.failed") > 0
	if err == nil {
		vf.Assert(!failed, "link-registered-after-failed-step")
		vf.Assert(l == link && w.p.GetLink(remote) == Link(link) && link.peer == remote, "link-registered-under-other-address")
		vf.Assert(link.encSession != nil, "link-registered-without-link-keys")
		vf.Reach("registered")
	} else {
		vf.Assert(w.p.GetLink(remote) == nil && len(w.p.links) == 0, "link-registered-despite-error")
		vf.Assert(vf.Count("conn.close") == 1, "connection-not-closed-after-failed-setup")
		vf.Reach("aborted")
	}
}

// VfC04SetupWorker: the same for the accepting side (setupWorker): whatever
// step fails, no link is registered and the connection is closed; a
// registered link has link keys and is registered under the verified peer.
func VfC04SetupWorker() {
	remote := vfAddr4()
	w := vfWorld(&m.PublicAddress{IP: remote, PublicKey: ed25519.PublicKey(vfKey4(81, 32))})
	w.inst.rt = m.NewRoutingTable(m.RoutingTableConfig{RouterIP: w.own})
	vfSetupState = &peeringRequestState{peering: w.p, session: w.inst.st.VfPeerSession(remote), remoteIP: remote, remoteLite: vf.Bool()}
	conn := &vfConn{}
	link := &LinkBase{conn: conn, peering: w.p, closed: make(chan struct{})}
	err := link.setupWorker(nil)
	vf.Assert(err == nil, "setup-worker-returned-error")
	failed := vf.Count("setup.failed") > 0
	if w.p.GetLink(remote) != nil {
		vf.Assert(!failed, "link-registered-after-failed-step")
		vf.Assert(w.p.GetLink(remote) == Link(link) && link.peer == remote, "link-registered-under-other-address")
		vf.Assert(link.encSession != nil, "link-registered-without-link-keys")
		vf.Assert(vf.Count("conn.close") == 0, "registered-link-closed")
		vf.Reach("registered")
	} else {
		vf.Assert(len(w.p.links) == 0, "link-registered-despite-error")
		vf.Assert(failed, "link-not-registered-although-every-step-succeeded")
		vf.Assert(vf.Count("conn.close") == 1, "connection-not-closed-after-failed-setup")
		vf.Reach("aborted")
	}
}

// VfC13SetupStall: the handshake loop (handleSetupMessages, real code, either
// role) on a connection whose remote end sends anything, nothing, or breaks:
// every Read of the setup phase must be covered by a deadline - a Read without
// one blocks for ever when the remote accepts the connection and stays silent,
// and with it the worker that runs the setup (the connect manager dials and
// sets up synchronously; every incoming connection holds a setup worker). No
// panic either.
func VfC13SetupStall() {
	remote := vfAddr4()
	w := vfWorld(&m.PublicAddress{IP: remote, PublicKey: ed25519.PublicKey(vfKey4(81, 32))})
	conn := &vfConn{readsLeft: vf.Param("reads")}
	link := &LinkBase{conn: conn, peering: w.p, closed: make(chan struct{}), outgoing: vf.Bool()}
	_, err := link.handleSetupMessages(link.outgoing)
	vf.Assert(conn.readsWithoutDeadline == 0, "handshake-read-without-deadline")
	if err != nil {
		vf.Reach("setup-failed")
	}
	if len(conn.reqs) > 0 {
		vf.Reach("read-attempted")
	}
}
