//go:build verif

package peering

import (
	vf "github.com/mycoria/mycoria/zzvf"
)

// VfC04Messages: the handshake messages as the peer DECODES them. Every harness
// above hands a handler an already decoded struct (the CBOR codec is a model);
// that a field the sender set is the field the receiver reads is decided here:
// each message type with EVERY field populated and symbolic goes through the
// type-directed codec model (vf.CBORCopy: field visibility, `cbor` tag names,
// "-", fields whose keys collide are dropped, omitempty - derived from the real
// struct types of this tree) and must come back equal field by field.
func VfC04Messages() {
	switch vf.Choose(4) {
	case 0:
		a, b := &peeringRequest{}, &peeringRequest{}
		vf.FillAny(a)
		vf.Assert(vf.CBORCopy(b, a) && vf.DeepEqual(a, b), "peering-request-changed-by-encoding")
	case 1:
		a, b := &peeringResponse{}, &peeringResponse{}
		vf.FillAny(a)
		vf.Assert(vf.CBORCopy(b, a) && vf.DeepEqual(a, b), "peering-response-changed-by-encoding")
	case 2:
		a, b := &peeringAck{}, &peeringAck{}
		vf.FillAny(a)
		vf.Assert(vf.CBORCopy(b, a) && vf.DeepEqual(a, b), "peering-ack-changed-by-encoding")
	default:
		a, b := &peeringErr{}, &peeringErr{}
		vf.FillAny(a)
		vf.Assert(vf.CBORCopy(b, a) && vf.DeepEqual(a, b), "peering-error-changed-by-encoding")
	}
	vf.Reach("done")
}
