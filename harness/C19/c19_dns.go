//go:build verif

package dns

import (
	"net"
	"net/netip"
	"strings"
	"time"

	mdns "github.com/miekg/dns"

	"github.com/mycoria/mycoria/config"
	"github.com/mycoria/mycoria/m"
	"github.com/mycoria/mycoria/state"
	"github.com/mycoria/mycoria/storage"
	"github.com/mycoria/mycoria/tun"
	"github.com/mycoria/mycoria/mgr"
	vf "github.com/mycoria/mycoria/zzvf"
)

var vfWk = &mgr.WorkerCtx{}

type vfInst struct{ cfg *config.Config }

func (i *vfInst) Version() string         { return "vf" }
func (i *vfInst) Config() *config.Config   { return i.cfg }
func (i *vfInst) Identity() *m.Address     { return nil }
func (i *vfInst) State() *state.State      { return nil }
func (i *vfInst) TunDevice() *tun.Device   { return nil }

// vfMappings is the stored-mapping source.
type vfMappings struct{ m map[string]netip.Addr }

func (s *vfMappings) GetMapping(domain string) (netip.Addr, error) {
	a, ok := s.m[domain]
	if !ok {
		return netip.Addr{}, storage.ErrNotFound
	}
	return a, nil
}
func (s *vfMappings) QueryMappings(search string) ([]storage.StoredMapping, error) { return nil, nil }
func (s *vfMappings) SaveMapping(domain string, router netip.Addr) error            { return nil }
func (s *vfMappings) DeleteMapping(domain string) error                             { return nil }

type vfRW struct{ msgs []*mdns.Msg }

func (w *vfRW) LocalAddr() net.Addr         { return nil }
func (w *vfRW) RemoteAddr() net.Addr        { return nil }
func (w *vfRW) WriteMsg(m *mdns.Msg) error  { w.msgs = append(w.msgs, m); return nil }
func (w *vfRW) Write(b []byte) (int, error) { return len(b), nil }
func (w *vfRW) Close() error                { return nil }
func (w *vfRW) TsigStatus() error           { return nil }
func (w *vfRW) TsigTimersOnly(bool)         {}
func (w *vfRW) Hijack()                     {}

type vfPC struct{}

func (vfPC) ReadFrom(p []byte) (int, net.Addr, error)      { return 0, nil, nil }
func (vfPC) WriteTo(p []byte, a net.Addr) (int, error)     { return len(p), nil }
func (vfPC) Close() error                                  { return nil }
func (vfPC) LocalAddr() net.Addr                           { return nil }
func (vfPC) SetDeadline(t time.Time) error                 { return nil }
func (vfPC) SetReadDeadline(t time.Time) error             { return nil }
func (vfPC) SetWriteDeadline(t time.Time) error            { return nil }

// vfNewRR models dns.NewRR (zone-file text parsing): the record carries its text.
func vfNewRR(s string) (mdns.RR, error) {
	return &mdns.TXT{Txt: []string{s}}, nil
}

var vfNames = []string{"router.myco", "open.myco", "wpad.myco", "myco.myco", "a.myco", "b.myco", "a.b.myco", "plain", "u.mycology.myco", "u.myco.myco"}

func vfServer(q string) (*Server, [3]bool) {
	addrResolve, addrFriend, addrMapping := netip.MustParseAddr("fd00::1:1"), netip.MustParseAddr("fd00::2:2"), netip.MustParseAddr("fd00::3:3")
	cfg := &config.Config{Resolve: map[string]netip.Addr{}, FriendsByName: map[string]config.Friend{}}
	maps := &vfMappings{m: map[string]netip.Addr{}}
	// unrelated entries in every source must never matter
	other := "zz.myco"
	cfg.Resolve[other] = netip.MustParseAddr("fd00::9:1")
	cfg.FriendsByName["zz"] = config.Friend{Name: "zz", IP: netip.MustParseAddr("fd00::9:2")}
	cfg.FriendsByName["u"] = config.Friend{Name: "u", IP: netip.MustParseAddr("fd00::9:4")} // must not answer for u.<something>.myco
	maps.m[other] = netip.MustParseAddr("fd00::9:3")
	var has [3]bool
	if vf.Bool() {
		cfg.Resolve[q] = addrResolve
		has[0] = true
	}
	if vf.Bool() {
		if fn, ok := strings.CutSuffix(q, ".myco"); ok {
			cfg.FriendsByName[fn] = config.Friend{Name: fn, IP: addrFriend}
			has[1] = true
		}
	}
	if vf.Bool() {
		maps.m[q] = addrMapping
		has[2] = true
	}
	srv := &Server{instance: &vfInst{cfg: cfg}, mappings: maps,
		apiNames: []string{"router.myco", "open.myco"}, forbiddenNames: []string{"wpad.myco", "myco.myco"}}
	srv.dnsServer = &mdns.Server{PacketConn: vfPC{}}
	return srv, has
}

func vfExpected(q string, has [3]bool) (string, Source) {
	switch {
	case q == "router.myco" || q == "open.myco":
		return config.DefaultAPIAddress.String(), SourceInternal
	case has[0]:
		return "fd00::1:1", SourceResolveConfig
	case q == "wpad.myco" || q == "myco.myco":
		return "", SourceForbidden
	case has[1]:
		return "fd00::2:2", SourceFriend
	case has[2]:
		return "fd00::3:3", SourceMapping
	}
	return "", SourceNone
}

// VfC19Lookup: for every name of the universe and every combination of
// sources holding it (plus unrelated entries everywhere) Lookup answers from
// the first source in the fixed order with exactly that source's address.
func VfC19Lookup() {
	q := vfNames[vf.Choose(len(vfNames))]
	srv, has := vfServer(q)
	ip, src := srv.Lookup(q)
	wantIP, wantSrc := vfExpected(q, has)
	vf.Assert(src == wantSrc, "lookup-source-precedence")
	if wantIP != "" {
		vf.Assert(ip.IsValid() && ip.String() == wantIP, "lookup-address")
		vf.Reach("answered")
	} else {
		vf.Assert(!ip.IsValid(), "lookup-address-without-source")
		vf.Reach("not-answered")
	}
}

// VfC19Request: a request with one question (the server library rejects every
// other question count before the handler runs), arbitrary type and class, a
// name of the universe in any case / with or without trailing dot: NameError
// unless the name is under .myco, the type is an address-type query and the
// class is IN/ANY; otherwise the answer carries Lookup's address.
func VfC19Request() {
	q := vfNames[vf.Choose(len(vfNames))]
	srv, has := vfServer(q)
	name := q
	if vf.Bool() {
		name = strings.ToUpper(name)
	}
	dotted := vf.Bool()
	if dotted {
		name += "."
	}
	r := new(mdns.Msg)
	r.Question = []mdns.Question{{Name: name, Qtype: vf.U16(), Qclass: vf.U16()}}
	w := &vfRW{}
	srv.handleRequest(vfWk, w, r)
	vf.Assert(len(w.msgs) == 1, "not-exactly-one-reply")
	rep := w.msgs[0]
	qt, qc := r.Question[0].Qtype, r.Question[0].Qclass
	typeOK := qt == mdns.TypeA || qt == mdns.TypeAAAA || qt == mdns.TypeSVCB || qt == mdns.TypeHTTPS || qt == mdns.TypeANY
	classOK := qc == mdns.ClassINET || qc == mdns.ClassANY
	under := dotted && strings.HasSuffix(q, ".myco") // the wire form of a name always ends in a dot
	wantIP, _ := vfExpected(q, has)
	if under && typeOK && classOK && wantIP != "" {
		vf.Assert(rep.Rcode == mdns.RcodeSuccess, "valid-query-not-answered")
		found := false
		for _, rr := range append(append([]mdns.RR{}, rep.Answer...), rep.Extra...) {
			if t, ok := rr.(*mdns.TXT); ok && strings.Contains(t.Txt[0], "AAAA "+wantIP) {
				found = true
			}
		}
		vf.Assert(found, "answer-without-the-source-address")
		vf.Reach("answered")
	} else {
		vf.Assert(rep.Rcode == mdns.RcodeNameError && len(rep.Answer) == 0, "query-outside-scope-answered")
		vf.Reach("name-error")
	}
}

// VfC19Configured: the configuration is built by the REAL parser
// (config.MakeTestConfig -> Store.parse) from names as an administrator writes
// them - a friend called alice / Alice / ALICE, a resolve entry spelled
// files.myco / Files.Myco. - and a request arrives with the name in any case.
// DNS names are case-insensitive: the friend (resp. the resolve entry) answers,
// whatever stored mappings exist for the lower-case spelling of the same name.
func VfC19Configured() {
	friendSpell := []string{"alice", "Alice", "ALICE"}[vf.Choose(3)]
	resolveSpell := []string{"files.myco", "Files.Myco."}[vf.Choose(2)]
	st := config.Store{
		FriendConfigs: []config.FriendConfig{{Name: friendSpell, IP: "fd1f::a"}},
		ResolveConfig: map[string]string{resolveSpell: "fd1f::b"},
	}
	cfg := config.MakeTestConfig(st)
	maps := &vfMappings{m: map[string]netip.Addr{}}
	bad := netip.MustParseAddr("fd1f::bad")
	if vf.Bool() {
		maps.m["alice.myco"] = bad
	}
	if vf.Bool() {
		maps.m["files.myco"] = bad
	}
	srv := &Server{instance: &vfInst{cfg: cfg}, mappings: maps,
		apiNames: []string{"router.myco", "open.myco"}, forbiddenNames: []string{"wpad.myco", "myco.myco"}}
	srv.dnsServer = &mdns.Server{PacketConn: vfPC{}}

	var name, want string
	if vf.Bool() {
		name, want = []string{"alice.myco.", "Alice.myco.", "ALICE.MYCO."}[vf.Choose(3)], "fd1f::a"
	} else {
		name, want = []string{"files.myco.", "FILES.myco."}[vf.Choose(2)], "fd1f::b"
	}
	r := new(mdns.Msg)
	r.Question = []mdns.Question{{Name: name, Qtype: mdns.TypeAAAA, Qclass: mdns.ClassINET}}
	w := &vfRW{}
	srv.handleRequest(vfWk, w, r)
	vf.Assert(len(w.msgs) == 1, "not-exactly-one-reply")
	rep := w.msgs[0]
	vf.Assert(rep.Rcode == mdns.RcodeSuccess, "configured-name-not-answered")
	found, shadowed := false, false
	for _, rr := range append(append([]mdns.RR{}, rep.Answer...), rep.Extra...) {
		if t, ok := rr.(*mdns.TXT); ok {
			if strings.Contains(t.Txt[0], "AAAA "+want) {
				found = true
			}
			if strings.Contains(t.Txt[0], "AAAA fd1f::bad") {
				shadowed = true
			}
		}
	}
	vf.Assert(!shadowed, "stored-mapping-shadows-configured-name")
	vf.Assert(found, "answer-without-the-configured-address")
	vf.Reach("configured-answered")
}
