//go:build verif

package config

import (
	"errors"
	"net/netip"
	"regexp"

	vf "github.com/mycoria/mycoria/zzvf"
)

// ---- text models (concrete strings only) ----

func vfLabelChars(s string) bool {
	if len(s) < 1 || len(s) > 63 {
		return false
	}
	for i := 0; i < len(s); i++ {
		c := s[i]
		if !(c >= 'a' && c <= 'z') && !(c >= '0' && c <= '9') && c != '_' && c != '-' {
			return false
		}
	}
	return true
}

// vfDomainMatch is domainRegex written out: dot-separated labels, each an
// optional "xn--" followed by 1..63 characters of [a-z0-9_-].
func vfDomainMatch(re *regexp.Regexp, s string) bool {
	start := 0
	for i := 0; i <= len(s); i++ {
		if i == len(s) || s[i] == '.' {
			l := s[start:i]
			ok := vfLabelChars(l)
			if !ok && len(l) > 4 && l[:4] == "xn--" {
				ok = vfLabelChars(l[4:])
			}
			if !ok {
				return false
			}
			start = i + 1
		}
	}
	return true
}

// vfToASCII stands for idna.ToASCII on the names of the universe below.
func vfToASCII(s string) (string, error) {
	ascii := true
	for i := 0; i < len(s); i++ {
		if s[i] >= 0x80 {
			ascii = false
		}
	}
	if ascii {
		return s, nil
	}
	switch s {
	case "bücher.myco":
		return "xn--bcher-kva.myco", nil
	case "sub.münchen.myco":
		return "sub.xn--mnchen-3ya.myco", nil
	}
	return "", errors.New("idna: name outside the modelled universe")
}

type vfNameCase struct {
	raw, clean string
	valid      bool
}

var vfNameCases = []vfNameCase{
	{"plain.myco", "plain.myco", true},
	{"Files.Myco", "files.myco", true},
	{"printer.myco.", "printer.myco", true},
	{"UP.NODE.MYCO.", "up.node.myco", true},
	{"bücher.myco", "xn--bcher-kva.myco", true},
	{"sub.münchen.myco", "sub.xn--mnchen-3ya.myco", true},
	{"bad name.myco", "", false},
	{"x.notmyco", "", false},
	{"semi;colon.myco", "", false},
}

// VfC19Config: names as they are written in the configuration (mixed case,
// trailing dot, IDN) are normalised by CleanDomain to the form DNS queries
// carry, invalid ones are refused, and the resolve map built by the
// configuration parser is keyed by exactly the normalised name.
func VfC19Config() {
	cs := vfNameCases[vf.Choose(len(vfNameCases))]
	cl, ok := CleanDomain(cs.raw)
	vf.Assert(ok == cs.valid, "clean-domain-validity")
	if cs.valid {
		vf.Assert(cl == cs.clean, "clean-domain-not-normalised")
	}
	st := Store{ResolveConfig: map[string]string{cs.raw: "fd00::7"}}
	if vf.Bool() {
		st.ResolveConfig["other.myco"] = "fd00::8"
	}
	if cs.valid && cs.raw != cs.clean && vf.Bool() {
		// the same name written twice in different spellings with DIFFERENT addresses: whichever the
		// parser met last would win - the answer would depend on map iteration order, not on the
		// configuration. Such a configuration has to be refused.
		st.ResolveConfig[cs.clean] = "fd00::9"
		_, err := st.parse(true)
		vf.Assert(err != nil, "ambiguous-resolve-entries-accepted")
		vf.Reach("ambiguous-refused")
		return
	}
	c, err := st.parse(true)
	if !cs.valid {
		vf.Assert(err != nil, "invalid-resolve-name-accepted")
		vf.Reach("refused")
		return
	}
	vf.Assert(err == nil && c != nil, "valid-resolve-name-refused")
	if err != nil {
		return
	}
	a, has := c.Resolve[cs.clean]
	vf.Assert(has && a == netip.MustParseAddr("fd00::7"), "resolve-entry-not-under-normalised-name")
	vf.Assert(len(c.Resolve) == len(st.ResolveConfig), "resolve-map-size")
	vf.Reach("configured")
}
