//go:build verif

package peering

import (
	"errors"
	"net/netip"

	"github.com/mycoria/mycoria/frame"
	"github.com/mycoria/mycoria/state"
	vf "github.com/mycoria/mycoria/zzvf"
)

const (
	kLinkIn  = 31
	kLinkOut = 32
)

func vfLinkFor(conn *vfConn, enc bool) (*LinkBase, *frame.Builder) {
	b := frame.NewFrameBuilder()
	b.SetFrameMargins(FrameOffset, FrameOverhead)
	p := &Peering{instance: &vfInstance{builder: b}}
	l := &LinkBase{conn: conn, peering: p}
	if enc {
		l.encSession = state.VfEncSession(vf.NewAEAD(kLinkIn), vf.NewAEAD(kLinkOut))
		l.encSession.VfSeqStateEnc()
	}
	return l, b
}

func vfI5(a, b bool) bool { return !a || b }

// vfFraming: every Read asks for exactly the rest of the 2-byte length prefix,
// then for no more than the rest of the announced frame: whatever the pieces
// the stream arrives in, the reader stays aligned with the frame boundaries.
func vfFraming(conn *vfConn) {
	dataLen := int(conn.first[0])<<8 | int(conn.first[1])
	for i, req := range conn.reqs {
		if conn.before[i] < 2 {
			vf.Assert(req == 2-conn.before[i], "length-prefix-read-misaligned")
		} else {
			vf.Assert(req >= 1 && req <= dataLen-conn.before[i], "frame-body-read-misaligned")
		}
	}
}

// VfC05Read: one readFrame on an arbitrary byte stream delivered in arbitrary
// pieces, with link encryption on: no panic; a frame is delivered only after
// AEAD open and sequence check succeeded and it parsed; its bytes are the
// opened plaintext; exactly the announced number of bytes is consumed.
func VfC05Read() {
	conn := &vfConn{readsLeft: vf.Param("reads")}
	link, b := vfLinkFor(conn, true)
	win0 := link.encSession.VfSeqSnap()
	f, err := link.readFrame(b)
	vfFraming(conn)
	netErr := err != nil && errors.Is(err, ErrNetworkReadError)
	dataLen := int(conn.first[0])<<8 | int(conn.first[1])
	if !netErr && conn.total >= 2 && dataLen > 3 {
		vf.Assert(conn.total == dataLen, "consumed-not-announced-length")
	}
	// unauthenticated bytes never move the replay window
	if len(vf.Opens) == 0 || !vf.Opens[0].OK {
		vf.Assert(link.encSession.VfSeqSnap() == win0, "replay-window-moved-without-authentication")
	}
	if err == nil {
		vf.Assert(f != nil, "nil-frame-without-error")
		vf.Assert(len(vf.Opens) == 1 && vf.Opens[0].OK && vf.Opens[0].KeyID == kLinkIn, "delivered-without-open")
		o := vf.Opens[0]
		vf.Assert(len(o.Nonce) == 12 && len(o.AAD) == 0, "nonce-aad-shape")
		vf.Assert(len(o.In) == dataLen-12, "ciphertext-is-not-rest-of-frame")
		fd, e2 := f.FrameDataWithMargins(0, 0)
		vf.Assert(e2 == nil && len(fd) == dataLen-12-16, "delivered-length")
		vf.Assert(f.RecvLink() == frame.LinkAccessor(link), "recv-link")
		// once only: the frame's sequence number was acceptable to the replay window as it stood
		seq := uint32(o.Nonce[4])<<24 | uint32(o.Nonce[5])<<16 | uint32(o.Nonce[6])<<8 | uint32(o.Nonce[7])
		vf.Assert(state.VfSeqAccepts(win0, seq, false), "delivered-frame-the-replay-window-rejects")
		vf.Reach("delivered")
		// relaying: whatever its size, the frame as received has the room the next link needs
		conn2 := &vfConn{}
		link2, _ := vfLinkFor(conn2, true)
		link2.peering = link.peering
		vf.Assert(link2.writeFrame(f) == nil && len(conn2.written) == 1, "received-frame-cannot-be-written-to-the-next-link")
		vf.Assert(len(conn2.written[0]) == dataLen, "relayed-link-frame-length")
	} else {
		vf.Assert(f == nil, "frame-with-error")
		if len(vf.Opens) == 1 && !vf.Opens[0].OK {
			vf.Reach("open-rejected")
		}
		if netErr {
			vf.Reach("io-error")
		}
	}
}

// VfC05ReadPlain: the same without link encryption (handshake phase): no panic, framing exact.
func VfC05ReadPlain() {
	conn := &vfConn{readsLeft: vf.Param("reads")}
	link, b := vfLinkFor(conn, false)
	f, err := link.readFrame(b)
	vfFraming(conn)
	netErr := err != nil && errors.Is(err, ErrNetworkReadError)
	dataLen := int(conn.first[0])<<8 | int(conn.first[1])
	if !netErr && conn.total >= 2 && dataLen > 3 {
		vf.Assert(conn.total == dataLen, "consumed-not-announced-length")
	}
	if err == nil {
		vf.Assert(f != nil, "nil-frame-without-error")
		vf.Reach("delivered")
	}
}

// VfC05Write: once link encryption exists, everything written to the wire is
// the output of exactly one AEAD seal over exactly the frame bytes; no frame
// byte is written in clear; the frame is released exactly once.
func VfC05Write() {
	conn := &vfConn{}
	link, _ := vfLinkFor(conn, true)
	// the frame may come from a builder with any margins (head/tail room for the link header and tag or not)
	b := frame.NewFrameBuilder()
	off, ovh := vf.Int(), vf.Int()
	vf.Assume(off >= 0 && off <= 20 && ovh >= 0 && ovh <= 20)
	b.SetFrameMargins(off, ovh)
	mt := frame.MessageType(vf.U8())
	nsw, nmsg, napx := vf.Int(), vf.Int(), vf.Int()
	vf.Assume(nsw >= 0 && nsw <= 255 && nmsg >= 1 && nmsg <= 10000 && napx >= 0 && napx <= 10000)
	f, err := b.NewFrameV1(netip.AddrFrom16(vfAddr5()), netip.AddrFrom16(vfAddr5()), mt, vf.Bytes(nsw), vf.Bytes(nmsg), vf.Bytes(napx))
	if err != nil {
		return
	}
	fd, _ := f.FrameDataWithMargins(0, 0)
	n := len(fd)
	orig := make([]byte, n)
	copy(orig, fd)
	q := vf.Int()
	vf.Assume(q >= 0 && q < n)

	err = link.writeFrame(f)
	if err != nil {
		vf.Assert(len(conn.written) == 0, "write-despite-error")
		// a frame that has the head and tail room the link needs (as every frame of this router's
		// own builder has) and fits the 16-bit length prefix is never refused - whatever its size
		// relative to the pooled buffer tiers: a refused frame is a frame silently lost
		vf.Assert(!(off >= FrameOffset && ovh >= FrameOverhead && n+FrameOffset+FrameOverhead <= 0xFFFF), "frame-with-link-margins-refused")
		vf.Reach("refused")
		return
	}
	vf.Assert(len(conn.written) == 1, "not-exactly-one-write")
	w := conn.written[0]
	vf.Assert(len(vf.Seals) == 1 && vf.Seals[0].KeyID == kLinkOut, "not-exactly-one-seal")
	s := vf.Seals[0]
	vf.Assert(len(w) == n+12+16, "wire-length")
	vf.Assert(int(w[0])<<8|int(w[1]) == len(w), "length-prefix")
	vf.Assert(len(s.In) == n && s.In[q] == orig[q], "sealed-input-is-not-the-frame")
	vf.Assert(len(s.Out) == n+16, "seal-output-length")
	vf.Assert(w[12+q] == s.Out[q], "frame-byte-written-in-clear")
	k := vf.Int()
	vf.Assume(k >= 0 && k < 16)
	vf.Assert(w[12+n+k] == s.Out[n+k], "tag-not-written")
	j := vf.Int()
	vf.Assume(j >= 0 && j < 12)
	vf.Assert(w[j] == s.Nonce[j], "header-is-not-the-nonce")
	vf.Assert(len(s.AAD) == 0, "aad-shape")
	vf.Assert(f.RecvLink() == nil, "released-frame-keeps-link")
	vf.Reach("written")
}

func vfAddr5() (a [16]byte) { copy(a[:], vf.Bytes(16)); return }

// VfC05ReadBlock: the framing layer under both the handshake and the encrypted
// link. Whatever pieces the connection delivers the bytes in: a length-prefixed
// block of EVERY announced length 4..65535 that arrives completely is handed up,
// exactly as long as announced and byte-identical to what was on the wire - in
// particular lengths that equal a pooled-buffer class exactly; it is discarded
// only for an I/O error or an impossible length (<= 3). (A discarded block is
// a frame silently lost: a peering request of the wrong size would keep two
// routers from ever peering.)
func VfC05ReadBlock() {
	conn := &vfConn{readsLeft: vf.Param("reads")}
	link, _ := vfLinkFor(conn, false)
	data, err := link.readLengthAndData()
	netErr := err != nil && errors.Is(err, ErrNetworkReadError)
	dataLen := int(conn.first[0])<<8 | int(conn.first[1])
	if netErr || conn.total < 2 {
		vf.Reach("io-error")
		return
	}
	if dataLen <= 3 {
		vf.Assert(err != nil, "impossible-length-accepted")
		vf.Reach("bad-length")
		return
	}
	vf.Assert(err == nil, "complete-block-of-admissible-length-discarded")
	if err != nil {
		return
	}
	vf.Assert(len(data) == dataLen && conn.total == dataLen, "block-length-differs-from-announced")
	vf.Assert(data[0] == conn.first[0] && data[1] == conn.first[1], "length-prefix-not-kept")
	vf.Reach("handed-up")
}
