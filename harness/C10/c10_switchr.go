//go:build verif

package switchr

import (
	"net/netip"

	"github.com/mycoria/mycoria/config"
	"github.com/mycoria/mycoria/frame"
	"github.com/mycoria/mycoria/m"
	"github.com/mycoria/mycoria/peering"
	"github.com/mycoria/mycoria/state"
	vf "github.com/mycoria/mycoria/zzvf"
)

type vfInst struct {
	id *m.Address
	p  *peering.Peering
}

func (i *vfInst) Version() string            { return "vf" }
func (i *vfInst) Config() *config.Config      { return nil }
func (i *vfInst) Identity() *m.Address        { return i.id }
func (i *vfInst) State() *state.State         { return nil }
func (i *vfInst) Peering() *peering.Peering   { return i.p }

func vfAddr() netip.Addr {
	var a [16]byte
	copy(a[:], vf.Bytes(16))
	return netip.AddrFrom16(a)
}

func vfI(a, b bool) bool { return !a || b }

// VfC10Switch: one Switch.handleFrame step on an arbitrary parsed frame
// (arbitrary bytes, switch block of 0..B bytes) arriving over a link with an
// arbitrary label, with an arbitrary second link registered:
//   - a frame is sent to a link only with TTL reduced by exactly one and still >= 1
//   - own-source frames are dropped
//   - every byte other than TTL, flow flags and the switch block is unchanged
//   - at most one of {forwarded, escalated} happens, at most once
func VfC10Switch() {
	B := vf.Param("B")
	b := frame.NewFrameBuilder()
	n := vf.Int()
	vf.Assume(n >= 68 && n <= 68+B+40)
	data := vf.Bytes(n)
	vf.Assume(data[0] == 1 && int(data[48]) <= B)
	f, err := b.ParseFrame(data, data, 0)
	if err != nil {
		vf.Reach("parse-rejects")
		return
	}
	orig := make([]byte, n)
	copy(orig, data)
	blockLen := len(f.SwitchBlock())

	recv := &peering.VfLink{Label: m.SwitchLabel(vf.U16()), PeerIP: vfAddr(), Flow: frame.FlowControlFlag(vf.U8())}
	out := &peering.VfLink{Label: m.SwitchLabel(vf.U16()), PeerIP: vfAddr()}
	vf.Assume(recv.Label != out.Label && recv.PeerIP != out.PeerIP)
	p := peering.VfNewPeering(nil, recv, out)
	f.SetRecvLink(recv)
	own := vfAddr()
	s := &Switch{instance: &vfInst{id: &m.Address{PublicAddress: m.PublicAddress{IP: own}}, p: p}, routerInput: make(chan frame.Frame, 4)}
	ttl0 := f.TTL()

	// what one rotation step of C12's kernel does to a copy of the block
	ref := make([]byte, blockLen)
	copy(ref, f.SwitchBlock())
	refNext, refErr := m.NextRotateSwitchBlock(ref, recv.Label)

	err = s.handleFrame(f)

	sent := len(out.Sent) + len(out.Prio) + len(recv.Sent) + len(recv.Prio)
	esc := len(s.routerInput)
	vf.Assert(sent+esc <= 1, "handled-more-than-once")
	if sent == 1 {
		vf.Assert(ttl0 >= 2 && f.TTL() == ttl0-1, "forwarded-without-ttl-decrement")
		vf.Assert(f.SrcIP() != own, "own-frame-forwarded")
		vf.Assert(blockLen > 0, "forwarded-without-switch-block")
		vf.Reach("forwarded")
	} else {
		vf.Assert(vfI(esc == 1, f.TTL() == ttl0), "escalated-frame-ttl-changed")
	}
	if esc == 1 {
		vf.Assert(f.SrcIP() != own, "own-frame-escalated")
		vf.Reach("escalated")
	}
	if err != nil {
		vf.Assert(sent == 0 || out.SendErr != nil, "error-after-forwarding")
		vf.Reach("error")
	}
	// a frame with a switch block is forwarded or handed up only after exactly one rotation with the
	// label of the link it arrived on: forwarded by the label the rotation yields, handed up iff that
	// label is zero, and the block it carries on is the rotated block (else the return path is lost)
	if blockLen > 0 && f.SrcIP() != own && sent+esc == 1 {
		vf.Assert(refErr == nil, "frame-with-unrotatable-switch-block-passed-on")
		vf.Assert((esc == 1) == (refNext == 0), "escalation-does-not-follow-the-rotated-label")
		if sent == 1 {
			vf.Assert(len(out.Sent)+len(out.Prio) == vfB2i(refNext == out.Label) && len(recv.Sent)+len(recv.Prio) == vfB2i(refNext == recv.Label), "forwarded-over-another-link-than-the-label-names")
		}
		k := vf.Int()
		vf.Assume(k >= 0 && k < blockLen)
		vf.Assert(f.SwitchBlock()[k] == ref[k], "switch-block-not-rotated-before-passing-the-frame-on")
		vf.Reach("rotated")
	}
	q := vf.Int()
	vf.Assume(q >= 0 && q < n)
	if q != 1 && q != 2 && !(q >= 49 && q < 49+blockLen) {
		vf.Assert(data[q] == orig[q], "byte-outside-switch-block-changed")
	}
	if q == 2 && sent == 0 {
		vf.Assert(data[q] == orig[q], "flow-flags-changed-without-forwarding")
	}
}

func vfB2i(b bool) int {
	if b {
		return 1
	}
	return 0
}
