//go:build verif

package router

import (
	"net/netip"

	"github.com/mycoria/mycoria/frame"
	"github.com/mycoria/mycoria/m"
	"github.com/mycoria/mycoria/mgr"
	"github.com/mycoria/mycoria/peering"
	"github.com/mycoria/mycoria/switchr"
	vf "github.com/mycoria/mycoria/zzvf"
)

var (
	vfC10Handled     []frame.Frame
	vfC10Unreachable []netip.Addr
)

func vfC10HandlePing(r *Router, w *mgr.WorkerCtx, f frame.Frame) error {
	vfC10Handled = append(vfC10Handled, f)
	return nil
}

func vfC10HandleTraffic(r *Router, w *mgr.WorkerCtx, f frame.Frame) error {
	vfC10Handled = append(vfC10Handled, f)
	return nil
}

func vfC10SendUnreachable(h *ErrorPingHandler, to, unreachable netip.Addr) error {
	vfC10Unreachable = append(vfC10Unreachable, to)
	return nil
}

// VfC10Route: one Router.handleFrame step (the frame was escalated by the
// switch) on an arbitrary parsed frame, an arbitrary valid routing table
// (cyclic or inconsistent with the links as it may be) and two links:
//   - the frame reaches this router's handlers only if it is addressed to it
//     (or is a hop ping); a frame for another router never does
//   - it is forwarded at most once, to the link of the looked-up next hop,
//     never back over the link it arrived on, only to a routable destination,
//     with TTL reduced by exactly one and still >= 1
//   - only TTL and flow flags change
//   - a routable frame with TTL >= 2 whose best route's next hop has a link
//     other than the arrival link is forwarded
func VfC10Route() {
	B := vf.Param("B")
	b := frame.NewFrameBuilder()
	n := vf.Int()
	vf.Assume(n >= 68 && n <= 68+B+40)
	data := vf.Bytes(n)
	vf.Assume(data[0] == 1 && int(data[48]) <= B)
	f, err := b.ParseFrame(data, data, 0)
	if err != nil {
		vf.Reach("parse-rejects")
		return
	}
	orig := make([]byte, n)
	copy(orig, data)

	own := vfMycoAddr()
	id := &m.Address{PublicAddress: m.PublicAddress{IP: own}}
	recv := &peering.VfLink{Label: m.SwitchLabel(vf.U16()), PeerIP: vfMycoAddr(), Flow: frame.FlowControlFlag(vf.U8())}
	out := &peering.VfLink{Label: m.SwitchLabel(vf.U16()), PeerIP: vfMycoAddr()}
	vf.Assume(recv.Label != out.Label && recv.PeerIP != out.PeerIP && recv.PeerIP != own && out.PeerIP != own)
	p := peering.VfNewPeering(nil, recv, out)
	hasRecv := vf.Bool()
	if hasRecv {
		f.SetRecvLink(recv)
	}
	inst := &vfRInst{id: id, builder: b, peer: p}
	inst.sw = switchr.VfNewSwitch(p, id)
	rt := m.VfTable(vf.Choose(vf.Param("N")+1), 2, 2)
	r := &Router{instance: inst, table: rt}
	r.ErrorPing = &ErrorPingHandler{r: r}
	ttl0 := f.TTL()
	dst, mt := f.DstIP(), f.MessageType()
	best, _ := rt.LookupNearestRoute(dst) // exactness of lookups is C11's subject

	err = r.handleFrame(vfW, f)

	sentRecv := len(recv.Sent) + len(recv.Prio)
	sentOut := len(out.Sent) + len(out.Prio)
	sent := sentRecv + sentOut
	vf.Assert(sent+len(vfC10Handled) <= 1, "handled-more-than-once")
	forMe := dst == own || mt == frame.RouterHopPing || mt == frame.RouterHopPingDeprecated
	if len(vfC10Handled) == 1 {
		vf.Assert(forMe, "frame-for-other-router-handed-to-handlers")
		vf.Reach("handled")
	}
	if forMe {
		vf.Assert(sent == 0, "own-frame-forwarded")
	}
	if sent == 1 {
		vf.Assert(ttl0 >= 2 && f.TTL() == ttl0-1, "forwarded-without-ttl-decrement")
		vf.Assert(m.RoutingAddressPrefix.Contains(dst), "unroutable-destination-forwarded")
		vf.Assert(best != nil, "forwarded-without-route")
		if best != nil {
			if sentOut == 1 {
				vf.Assert(best.NextHop == out.PeerIP, "forwarded-to-link-other-than-next-hop")
			} else {
				vf.Assert(best.NextHop == recv.PeerIP, "forwarded-to-link-other-than-next-hop")
			}
		}
		vf.Assert(!(hasRecv && sentRecv == 1), "sent-back-over-arrival-link")
		vf.Reach("forwarded")
	} else {
		vf.Assert(f.TTL() == ttl0 || f.TTL() == ttl0-1, "ttl-changed-otherwise")
	}
	if err == nil && !forMe {
		vf.Assert(sent == 1 || len(vfC10Unreachable) == 1, "frame-silently-dropped-without-error")
	}
	if len(vfC10Unreachable) == 1 {
		vf.Assert(hasRecv && best != nil && best.NextHop == recv.PeerIP && sent == 0, "unreachable-without-loop")
		vf.Reach("would-loop")
	}
	if !forMe && m.RoutingAddressPrefix.Contains(dst) && best != nil && ttl0 >= 2 &&
		((best.NextHop == out.PeerIP) || (best.NextHop == recv.PeerIP && !hasRecv)) {
		vf.Assert(sent == 1, "routable-frame-not-forwarded")
	}
	if err != nil {
		vf.Assert(sent == 0, "error-after-forwarding")
		vf.Reach("error")
	}
	q := vf.Int()
	vf.Assume(q >= 0 && q < n)
	if q != 1 && q != 2 {
		vf.Assert(data[q] == orig[q], "byte-other-than-ttl-and-flow-changed")
	}
	if q == 2 && sent == 0 {
		vf.Assert(data[q] == orig[q], "flow-flags-changed-without-forwarding")
	}
}
