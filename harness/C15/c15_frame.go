//go:build verif

package frame

import (
	"crypto/ed25519"

	"github.com/mycoria/mycoria/state"
	vf "github.com/mycoria/mycoria/zzvf"
)

func vfKey15(id byte, n int) []byte {
	k := make([]byte, n)
	k[n-1] = id
	return k
}

// VfC15SealClass: for every message type byte, Seal numbers the frame from
// the sequence counter of exactly the class in which the receiver's Unseal
// checks it (priority or regular), so two frames of one class under one key
// never share a number and the receiver's windows stay per class.
func VfC15SealClass() {
	b := NewFrameBuilder()
	b.SetFrameMargins(12, 16)
	mt := MessageType(vf.U8())
	f, err := b.NewFrameV1(vfAddr(), vfAddr(), mt, nil, vf.Bytes(8), nil)
	if err != nil {
		vf.Stop()
	}
	sA := state.VfSession(f.dst, ed25519.PrivateKey(vfKey15(11, 64)), ed25519.PublicKey(vfKey15(12, 32)), vf.NewAEAD(22), vf.NewAEAD(21))
	sB := state.VfSession(f.src, ed25519.PrivateKey(vfKey15(12, 64)), ed25519.PublicKey(vfKey15(11, 32)), vf.NewAEAD(21), vf.NewAEAD(22))
	sA.VfSeqState()
	sB.VfSeqState()
	vf.Assume(sA.VfNoRollover() && sB.VfNoRollover())
	cls := mt.Class()
	r0, p0 := sA.VfOutCounters()
	if f.Seal(sA) != nil {
		vf.Reach("refused")
		return
	}
	r1, p1 := sA.VfOutCounters()
	switch cls {
	case MessageClassPriorityEncrypted:
		vf.Assert(p1 == p0+1 && r1 == r0 && f.SequenceNum() == p1, "priority-frame-numbered-from-other-counter")
		vf.Reach("priority")
	case MessageClassEncrypted:
		vf.Assert(r1 == r0+1 && p1 == p0 && f.SequenceNum() == r1, "regular-frame-numbered-from-other-counter")
		vf.Reach("regular")
	default:
		vf.Assert(r1 == r0 && p1 == p0, "signed-frame-consumed-sequence-number")
		vf.Reach("signed")
		return
	}
	// receiver: only the window of that class may move
	w0 := sB.VfEnc().VfSeqSnap()
	_ = f.Unseal(sB)
	w1 := sB.VfEnc().VfSeqSnap()
	if cls == MessageClassPriorityEncrypted {
		vf.Assert(w1[0] == w0[0] && w1[1] == w0[1], "priority-frame-moved-regular-window")
	} else {
		vf.Assert(w1[2] == w0[2] && w1[3] == w0[3], "regular-frame-moved-priority-window")
	}
}
