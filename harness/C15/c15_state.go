//go:build verif

package state

import (
	vf "github.com/mycoria/mycoria/zzvf"
)

func vfI15(a, b bool) bool { return !a || b }

func vfKeyID(c interface{ NonceSize() int }) int {
	if a, ok := c.(*vf.AEAD); ok {
		return a.KeyID
	}
	return -1
}

// VfC15Out: one EncryptionSession.Out step from an arbitrary counter state.
// (epoch, seq) per class strictly increases, 0 is never issued, a regular wrap
// moves to the derived key and resets the priority counter, a priority wrap is
// refused; the session lock is held across the counter increment.
func VfC15Out() {
	s := VfEncSession(vf.NewAEAD(1), vf.NewAEAD(2))
	s.outKey = []byte{2}
	r0, p0 := vf.U32(), vf.U32()
	s.reglSeqHandler.outSeq.Store(r0)
	s.prioSeqHandler.outSeq.Store(p0)
	prio := vf.Bool()
	seq, _, _, c, err := s.Out(prio)
	vf.Assert(vf.HeldDuring(&s.lock, "atomic.add"), "counter-incremented-without-session-lock")
	r1, p1 := s.reglSeqHandler.outSeq.Load(), s.prioSeqHandler.outSeq.Load()
	if prio {
		if p0 == 0xFFFFFFFF {
			vf.Assert(err != nil && c == nil, "priority-wrap-not-refused")
			vf.Reach("prio-wrap-refused")
			return
		}
		vf.Assert(err == nil && seq == p0+1 && seq != 0 && p1 == seq && r1 == r0, "prio-seq")
		vf.Assert(vfKeyID(c) == 2, "prio-key-changed")
		vf.Reach("prio")
		return
	}
	vf.Assert(err == nil, "regular-out-failed")
	if r0 == 0xFFFFFFFF {
		// wrap: new epoch
		vf.Assert(seq == 1 && r1 == 1, "wrap-seq")
		vf.Assert(vfKeyID(c) == 102 && len(s.outKey) == 1 && s.outKey[0] == 102, "wrap-did-not-roll-out-key")
		vf.Assert(p1 == 0, "wrap-did-not-reset-priority-counter")
		vf.Assert(vfKeyID(s.inCipher) == 1, "wrap-changed-in-key")
		vf.Reach("wrap")
	} else {
		vf.Assert(seq == r0+1 && seq != 0 && r1 == seq && p1 == p0, "regular-seq")
		vf.Assert(vfKeyID(c) == 2, "regular-key-changed")
		vf.Reach("regular")
	}
}

// VfC15Sync: sender and receiver in lock step (in-order delivery, regular
// class) across the wrap. Relational invariant: receiver.highest == sender
// counter and receiver in-key == sender out-key. One step: sender Out, then
// receiver In + Check: same key, accepted, invariant kept; a frame of the
// previous epoch presented after the switch is offered the new key (so it
// cannot open) and leaves the receiver state unchanged.
func VfC15Sync() {
	snd := VfEncSession(vf.NewAEAD(9), vf.NewAEAD(2))
	snd.outKey = []byte{2}
	rcv := VfEncSession(vf.NewAEAD(2), vf.NewAEAD(9))
	rcv.inKey = []byte{2}
	n := vf.U32()
	snd.reglSeqHandler.outSeq.Store(n)
	rcv.reglSeqHandler.highest = n
	rcv.reglSeqHandler.bitMap = vf.U64()
	// the priority class has its own arbitrary history on both sides
	rcv.prioSeqHandler.highest = vf.U32()
	rcv.prioSeqHandler.bitMap = vf.U64()
	snd.prioSeqHandler.outSeq.Store(vf.U32())
	// part of the receiver state: the next in key may already have been derived (an earlier
	// frame - authentic or not - announced the rollover); if so it is the successor of the in key
	if vf.Bool() {
		rcv.nextInKey, rcv.nextInCipher, _ = vfRolloverKey(rcv.inKey)
	}
	seq, _, _, c, err := snd.Out(false)
	vf.Assert(err == nil, "out-failed")
	ci, err := rcv.In(seq, false)
	vf.Assert(err == nil, "in-failed")
	vf.Assert(vfKeyID(ci) == vfKeyID(c), "receiver-key-differs-from-sender-key")
	vf.Assert(rcv.Check(seq, false) == nil, "in-order-frame-rejected")
	vf.Assert(rcv.reglSeqHandler.highest == snd.reglSeqHandler.outSeq.Load(), "invariant-highest")
	vf.Assert(len(rcv.inKey) == 1 && len(snd.outKey) == 1 && rcv.inKey[0] == snd.outKey[0], "invariant-keys")
	// the pending-next-key part of the invariant is re-established (this is what makes the
	// single step an induction over ANY number of wraps): nothing pending, or the successor
	// of the CURRENT in key
	vf.Assert((rcv.nextInKey == nil) == (rcv.nextInCipher == nil), "invariant-pending-next-key-half-set")
	if rcv.nextInCipher != nil {
		vf.Assert(len(rcv.nextInKey) == 1 && rcv.nextInKey[0] == rcv.inKey[0]+100 && vfKeyID(rcv.nextInCipher) == int(rcv.inKey[0])+100, "invariant-pending-next-key-is-not-the-successor")
	}
	if n == 0xFFFFFFFF {
		// both ends restart the priority sequence with the new key
		vf.Assert(snd.prioSeqHandler.outSeq.Load() == 0, "sender-priority-counter-not-reset")
		vf.Assert(rcv.prioSeqHandler.highest == 0, "receiver-priority-window-not-reset")
		// the first priority frame of the new epoch is accepted
		ps, _, _, pc, perr := snd.Out(true)
		pci, pierr := rcv.In(ps, true)
		vf.Assert(perr == nil && pierr == nil && vfKeyID(pc) == vfKeyID(pci), "priority-frame-after-wrap-key")
		vf.Assert(rcv.Check(ps, true) == nil, "priority-frame-after-wrap-rejected")
		// a late frame of the previous epoch
		old := vf.U32()
		vf.Assume(old >= 0xFFFFFF00)
		h, bm := rcv.reglSeqHandler.highest, rcv.reglSeqHandler.bitMap
		co, err := rcv.In(old, false)
		vf.Assert(err == nil && vfKeyID(co) == 102, "old-epoch-frame-offered-old-key")
		vf.Assert(rcv.reglSeqHandler.highest == h && rcv.reglSeqHandler.bitMap == bm, "old-epoch-frame-moved-window")
		// ... and the NEXT wrap of the same session (2^32 in-order frames later) works again:
		// sender and receiver move to the same third key, and a recorded frame of the second
		// epoch with a small number is not offered the key it was sealed with
		snd.reglSeqHandler.outSeq.Store(0xFFFFFFFF)
		rcv.reglSeqHandler.highest = 0xFFFFFFFF
		rcv.reglSeqHandler.bitMap = vf.U64()
		small := vf.U32()
		vf.Assume(small >= 1 && small <= 255)
		cr, rerr := rcv.In(small, false)
		vf.Assert(rerr == nil && vfKeyID(cr) != int(rcv.inKey[0]), "recorded-frame-of-this-epoch-offered-its-own-key-in-the-rollover-window")
		seq2, _, _, c2, err2 := snd.Out(false)
		ci2, ierr2 := rcv.In(seq2, false)
		vf.Assert(err2 == nil && ierr2 == nil && vfKeyID(ci2) == vfKeyID(c2), "second-wrap-receiver-key-differs-from-sender-key")
		vf.Assert(rcv.Check(seq2, false) == nil, "second-wrap-frame-rejected")
		vf.Assert(rcv.inKey[0] == snd.outKey[0], "second-wrap-keys-differ")
		vf.Reach("wrap")
	} else {
		vf.Reach("no-wrap")
	}
}

// VfC15Reorder: W consecutive sender frames starting anywhere within 300 of
// the wrap, delivered in an arbitrary order with displacement <= D. Every
// frame that is offered the key it was sealed with is accepted exactly once;
// a frame is offered a different key only if it is an old-epoch frame arriving
// after the receiver switched; the receiver ends in the sender's epoch if any
// new-epoch frame was delivered.
func VfC15Reorder() {
	W, D := vf.Param("W"), vf.Param("D")
	snd := VfEncSession(vf.NewAEAD(9), vf.NewAEAD(2))
	snd.outKey = []byte{2}
	rcv := VfEncSession(vf.NewAEAD(2), vf.NewAEAD(9))
	rcv.inKey = []byte{2}
	n := vf.U32()
	vf.Assume(n >= 0xFFFFFFFF-300 || n <= 300)
	snd.reglSeqHandler.outSeq.Store(n)
	rcv.reglSeqHandler.highest = n
	rcv.reglSeqHandler.bitMap = vf.U64()
	var seqs [8]uint32
	var keys [8]int
	for i := 0; i < W; i++ {
		s, _, _, c, err := snd.Out(false)
		vf.Assert(err == nil, "out-failed")
		seqs[i], keys[i] = s, vfKeyID(c)
	}
	var done [8]bool
	switched := false
	for k := 0; k < W; k++ {
		// pick an undelivered frame whose displacement stays within D
		i := vf.Choose(W)
		vf.Assume(!done[i])
		for j := 0; j < W; j++ {
			// no frame may be overtaken by more than D positions
			vf.Assume(vfI15(!done[j] && j < i, i-j <= D))
		}
		done[i] = true
		ci, err := rcv.In(seqs[i], false)
		vf.Assert(err == nil, "in-failed")
		if vfKeyID(ci) != keys[i] {
			// cannot open: must be an old-epoch frame after the switch
			vf.Assert(switched && keys[i] == 2, "live-frame-offered-wrong-key")
			vf.Reach("late-old-epoch-dropped")
			continue
		}
		if keys[i] != 2 {
			switched = true
		}
		vf.Assert(rcv.Check(seqs[i], false) == nil, "frame-not-accepted-exactly-once")
	}
	if switched {
		vf.Assert(rcv.inKey[0] == snd.outKey[0], "receiver-not-in-sender-epoch")
		vf.Reach("switched")
	}
	vf.Reach("done")
}

// VfC15Duplex: one session carries both directions (in key / receive windows
// for peer->me, out key / send counters for me->peer). One operation from an
// arbitrary state must leave the OTHER direction alone:
//   - receiving (In + Check), whatever it does to the in key and the receive
//     windows, changes neither the out key nor a send counter: otherwise the
//     next frames sent would repeat sequence numbers under the unchanged out
//     key (AEAD nonce reuse);
//   - sending (Out), whatever it does to the out key and the send counters,
//     changes neither the in key nor a receive window: otherwise frames the
//     peer sealed earlier under the unchanged in key would be accepted again.
func VfC15Duplex() {
	s := VfEncSession(vf.NewAEAD(1), vf.NewAEAD(2))
	s.inKey, s.outKey = []byte{1}, []byte{2}
	s.reglSeqHandler.highest, s.reglSeqHandler.bitMap = vf.U32(), vf.U64()
	s.prioSeqHandler.highest, s.prioSeqHandler.bitMap = vf.U32(), vf.U64()
	s.reglSeqHandler.outSeq.Store(vf.U32())
	s.prioSeqHandler.outSeq.Store(vf.U32())
	rh, rb, ph, pb := s.reglSeqHandler.highest, s.reglSeqHandler.bitMap, s.prioSeqHandler.highest, s.prioSeqHandler.bitMap
	ro, po := s.reglSeqHandler.outSeq.Load(), s.prioSeqHandler.outSeq.Load()
	prio := vf.Bool()
	if vf.Bool() {
		seq := vf.U32()
		c, err := s.In(seq, prio)
		if err == nil && c != nil {
			_ = s.Check(seq, prio) // the frame authenticated under the key In handed out
		}
		if vfKeyID(s.inCipher) != 1 {
			vf.Reach("in-key-rolled")
		}
		vf.Assert(vfKeyID(s.outCipher) == 2 && len(s.outKey) == 1 && s.outKey[0] == 2, "receiving-changed-the-out-key")
		vf.Assert(s.reglSeqHandler.outSeq.Load() == ro, "receiving-changed-the-regular-send-counter")
		vf.Assert(s.prioSeqHandler.outSeq.Load() == po, "receiving-reset-the-priority-send-counter-under-an-unchanged-out-key")
		vf.Reach("received")
		return
	}
	_, _, _, _, _ = s.Out(prio)
	if vfKeyID(s.outCipher) != 2 {
		vf.Reach("out-key-rolled")
	}
	vf.Assert(vfKeyID(s.inCipher) == 1 && len(s.inKey) == 1 && s.inKey[0] == 1, "sending-changed-the-in-key")
	vf.Assert(s.reglSeqHandler.highest == rh && s.reglSeqHandler.bitMap == rb, "sending-changed-the-regular-receive-window")
	vf.Assert(s.prioSeqHandler.highest == ph && s.prioSeqHandler.bitMap == pb, "sending-reset-the-priority-receive-window-under-an-unchanged-in-key")
	vf.Reach("sent")
}

// VfC15Inject: a frame that does NOT authenticate (forged, or a late frame of
// another key epoch) is offered to a receiver in an arbitrary state -
// including the last 256 numbers before the regular sequence wraps, where a
// small sequence number announces the sender's next key. Whatever cipher In
// hands out for it, since the AEAD then rejects the bytes and Check is never
// called, nothing about the receiver may change: same in key, same receive
// windows in both classes. (Otherwise one injected frame switches the
// receiver to the next key before the sender gets there and the intact frames
// still under way are lost.)
func VfC15Inject() {
	rcv := VfEncSession(vf.NewAEAD(2), vf.NewAEAD(9))
	rcv.inKey = []byte{2}
	rcv.reglSeqHandler.highest, rcv.reglSeqHandler.bitMap = vf.U32(), vf.U64()
	rcv.prioSeqHandler.highest, rcv.prioSeqHandler.bitMap = vf.U32(), vf.U64()
	w0 := rcv.VfSeqSnap()
	near := rcv.reglSeqHandler.highest >= rolloverUpperBound
	seq, prio := vf.U32(), vf.Bool()
	c, err := rcv.In(seq, prio)
	_ = c // the AEAD open with this cipher fails: Check is not called
	vf.Assert(vfKeyID(rcv.inCipher) == 2 && len(rcv.inKey) == 1 && rcv.inKey[0] == 2, "in-key-rolled-by-a-frame-that-did-not-authenticate")
	vf.Assert(rcv.VfSeqSnap() == w0, "receive-window-changed-by-a-frame-that-did-not-authenticate")
	if err == nil && near && !prio && seq <= rolloverLowerBound {
		vf.Assert(vfKeyID(c) == 102, "next-epoch-frame-not-offered-the-next-key")
		vf.Reach("next-epoch-candidate")
	}
	vf.Reach("done")
}

// VfC15FailedRekey: a key exchange that FAILS on a live session (a peer's hello
// or peering request carrying a key share X25519 refuses - 32 zero bytes are
// enough - or an unsupported exchange type) must leave the session as it was:
// same keys, same send counters, same receive windows, no pending next key
// touched. Otherwise the old keys stay in use while the counters restart:
// sequence numbers (AEAD nonces) repeat under one key and recorded frames are
// accepted again. A key exchange that succeeds installs new keys and restarts
// counters and windows together.
func VfC15FailedRekey() {
	e := VfEncSession(vf.NewAEAD(1), vf.NewAEAD(2))
	e.VfSeqStateEnc()
	if vf.Bool() {
		e.nextInKey, e.nextInCipher, _ = vfRolloverKey(e.inKey)
	}
	inC, outC, nextC := e.inCipher, e.outCipher, e.nextInCipher
	snap := e.VfSeqSnap()
	ro, po := e.reglSeqHandler.outSeq.Load(), e.prioSeqHandler.outSeq.Load()

	share := vf.Bytes(32)
	kxType := defaultKXType
	if vf.Bool() {
		kxType = "other"
	}
	var err error
	if vf.Bool() {
		_, _, err = e.InitKeyServer(share, kxType)
	} else {
		_, _, _ = e.InitKeyClientStart()
		err = e.InitKeyClientComplete(share, kxType)
	}
	if err != nil {
		vf.Assert(e.inCipher == inC && e.outCipher == outC, "failed-key-exchange-changed-the-keys")
		vf.Assert(e.reglSeqHandler.outSeq.Load() == ro && e.prioSeqHandler.outSeq.Load() == po, "failed-key-exchange-restarted-send-counters-under-the-old-key")
		vf.Assert(e.VfSeqSnap() == snap, "failed-key-exchange-reset-receive-windows-under-the-old-key")
		vf.Assert(e.nextInCipher == nextC, "failed-key-exchange-dropped-the-pending-next-key")
		vf.Reach("failed-rekey")
		return
	}
	vf.Assert(e.inCipher != inC && e.outCipher != outC, "successful-key-exchange-kept-an-old-key")
	vf.Assert(e.reglSeqHandler.outSeq.Load() == 0 && e.prioSeqHandler.outSeq.Load() == 0, "successful-key-exchange-kept-send-counters")
	vf.Assert(e.nextInCipher == nil && e.nextInKey == nil, "successful-key-exchange-kept-a-pending-next-key")
	vf.Reach("rekeyed")
}
