//go:build verif

package m

import (
	vf "github.com/mycoria/mycoria/zzvf"
)

// VfC13Rotate: NextRotateSwitchBlock on an arbitrary switch block of 1..B
// bytes (sitting inside a larger buffer, as in a frame) with an arbitrary
// receive label: returns a label or an error, never panics, and never writes
// outside the block.
func VfC13Rotate() {
	B := vf.Param("RB")
	n := vf.Int()
	vf.Assume(n >= 1 && n <= B)
	buf := make([]byte, B+8)
	copy(buf, vf.Bytes(B+8))
	guard := buf[n]
	block := buf[:n]
	_, err := NextRotateSwitchBlock(block, SwitchLabel(vf.U16()))
	vf.Assert(buf[n] == guard, "rotate-wrote-past-block")
	if err != nil {
		vf.Reach("error")
	} else {
		vf.Reach("ok")
	}
}

// VfC13DataBlock: GetDataBlock on an arbitrary buffer of 0..N bytes: returns a
// block inside the buffer or an error, never panics; a block written by
// PutDataBlock is read back exactly.
func VfC13DataBlock() {
	N := vf.Param("DN")
	n := vf.Int()
	vf.Assume(n >= 0 && n <= N)
	data := vf.Bytes(n)
	used, block, err := GetDataBlock(data)
	if err != nil {
		vf.Assert(used == 0 && block == nil, "datablock-error-with-result")
		vf.Reach("db-error")
	} else {
		vf.Assert(used >= 1 && used <= n && len(block) <= used-1, "datablock-outside-buffer")
		vf.Assert(len(block) == 0 || vf.SameObject(block, data), "datablock-not-in-buffer")
		vf.Reach("db-ok")
	}
	// round trip
	m := vf.Int()
	vf.Assume(m >= 0 && m <= 300)
	src := vf.Bytes(m)
	dst := make([]byte, 310)
	w, err := PutDataBlock(dst, src)
	vf.Assert(err == nil && w >= m+1 && w <= m+2, "put-datablock-failed")
	r, got, err := GetDataBlock(dst[:w])
	vf.Assert(err == nil && r == w && len(got) == m, "datablock-round-trip-size")
	i := vf.Int()
	vf.Assume(i >= 0 && i < m)
	vf.Assert(got[i] == src[i], "datablock-round-trip-bytes")
}
