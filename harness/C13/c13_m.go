//go:build verif

package m

import (
	vf "github.com/mycoria/mycoria/zzvf"
)

// VfC13Rotate: NextRotateSwitchBlock on an arbitrary switch block of 1..B
// bytes (sitting inside a larger buffer, as in a frame) with an arbitrary
// receive label: returns a label or an error, never panics, and never writes
// outside the block.
func VfC13Rotate() {
	B := vf.Param("RB")
	n := vf.Int()
	vf.Assume(n >= 1 && n <= B)
	buf := make([]byte, B+8)
	copy(buf, vf.Bytes(B+8))
	guard := buf[n]
	block := buf[:n]
	_, err := NextRotateSwitchBlock(block, SwitchLabel(vf.U16()))
	vf.Assert(buf[n] == guard, "rotate-wrote-past-block")
	if err != nil {
		vf.Reach("error")
	} else {
		vf.Reach("ok")
	}
}
