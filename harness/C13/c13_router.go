//go:build verif

package router

import (
	vf "github.com/mycoria/mycoria/zzvf"
)

// vfSendPingOK stands for Router.sendPingMsg (building, sealing and routing the
// ping frame is the subject of other harnesses): the ping is sent or it is not.
func vfSendPingOK(r *Router, opts sendPingOpts) error {
	if vf.Bool() {
		return errVfCbor7
	}
	return nil
}

// vfCborPong: the CBOR model for the keep-alive messages - the peer controls the
// body, so decoding fails, or yields "pong", or something else.
func vfCborPong(data []byte, v any) error {
	switch dst := v.(type) {
	case *pingPongMsg:
		switch vf.Choose(3) {
		case 0:
			return errVfCbor7
		case 1:
			dst.Msg = "pong"
		default:
			dst.Msg = "x"
		}
	}
	return nil
}

// VfC13KeepAlive: the keep-alive exchange under the timing a peer controls. One
// goroutine (keepAlivePeer) sends a ping and, when no answer came in time, sends
// it again under the SAME ping id; the frame handlers (other goroutines) process
// whatever pong responses the peer sends, whenever it sends them: before, after,
// or - one preemption - in the middle of a Send, between any two of its critical
// sections. K operations in any order; none may panic (a second close of the
// notify channel does).
func VfC13KeepAlive() {
	K := vf.Param("K")
	r := &Router{}
	h := NewPingPongHandler(r)
	dst := vfMycoAddr()
	var pingID uint64
	respond := func() {
		// a response frame from the peer: it echoes an id it has seen, or any other id
		id := pingID
		if vf.Bool() {
			id = vf.U64()
		}
		_ = h.Handle(vfW, nil, &PingHeader{PingID: id, FollowUp: true}, nil)
	}
	for k := 0; k < K; k++ {
		switch vf.Choose(3) {
		case 0: // keep-alive worker: first ping or a retry under the same id
			vf.Interleave(respond)
			_, id, err := h.Send(dst, true, pingID)
			vf.Interleave(nil)
			if err == nil {
				pingID = id
				vf.Reach("sent")
			}
		case 1: // a frame handler processes a response
			respond()
		default: // the cleaner
			_ = h.Clean(vfW)
		}
	}
	vf.Reach("done")
}
