//go:build verif

package frame

import (
	vf "github.com/mycoria/mycoria/zzvf"
)

// VfC13Parse: arbitrary bytes of any length up to the link maximum through
// ParseFrame, then every accessor and mutator a handler may call on the
// result: no panic (every implicit Go panic is an obligation).
func VfC13Parse() {
	b := NewFrameBuilder()
	n := vf.Int()
	vf.Assume(n >= 0 && n <= 65535)
	// the link reader hands the parser a sub-slice of a pooled slice
	off := vf.Int()
	vf.Assume(off == 2 || off == 12)
	ps := b.GetPooledSlice(n + off + 16)
	if ps == nil {
		return
	}
	copy(ps[off:], vf.Bytes(n))
	data := ps[off : off+n]
	fr, err := b.ParseFrame(data, ps, off)
	if err != nil {
		vf.Reach("rejected")
		return
	}
	f := fr.(*FrameV1)
	_ = f.Version()
	_ = f.TTL()
	f.ReduceTTL(vf.U8())
	_ = f.HasFlowFlag(FlowControlFlag(vf.U8()))
	f.SetFlowFlag(FlowControlFlag(vf.U8()))
	_ = f.RecvRate()
	_ = f.MessageType()
	_ = f.SequenceNum()
	_ = f.SequenceAck()
	_ = f.SrcIP()
	_ = f.DstIP()
	sb := f.SwitchBlock()
	_ = f.SetSwitchBlock(sb)
	md := f.MessageData()
	vf.Assert(len(md) >= 0 && len(f.MessageDataWithAuth()) >= len(md), "message-ranges")
	mo := vf.Int()
	vf.Assume(mo >= 0 && mo <= 100) // callers pass small constant margins (tun/io.go: 10)
	_, _ = f.MessageDataWithOffset(mo)
	_ = f.AuthData()
	_ = f.AppendixData()
	fo, fh := vf.Int(), vf.Int()
	vf.Assume(fo >= 0 && fo <= 100 && fh >= 0 && fh <= 100) // callers: (12,16) and (2,0)
	_, _ = f.FrameDataWithMargins(fo, fh)
	switch vf.Choose(5) {
	case 0:
		nx := vf.Int()
		vf.Assume(nx >= 0 && nx <= 20000)
		_ = f.SetAppendixData(vf.Bytes(nx))
		vf.Reach("set-appendix")
	case 1:
		c := f.Clone().(*FrameV1)
		vf.Assert(len(c.data) == len(f.data), "clone-length")
		c.ReturnToPool()
		vf.Reach("clone")
	case 2:
		nm, na := vf.Int(), vf.Int()
		vf.Assume(nm >= 0 && nm <= 20000 && na >= 0 && na <= 20000)
		_ = f.Reply(nil, vf.Bytes(nm), vf.Bytes(na))
		vf.Reach("reply")
	case 3:
		ns, nm := vf.Int(), vf.Int()
		vf.Assume(ns >= 0 && ns <= 300 && nm >= 0 && nm <= 20000)
		_ = f.ReplyTo(f.DstIP(), f.SrcIP(), vf.Bytes(ns), vf.Bytes(nm), nil)
		vf.Reach("replyto")
	default:
	}
	f.ReturnToPool()
	vf.Reach("released")
}
