//go:build verif

package config

import (
	"net/netip"
)

// vfPolicyKey summarises makePolicyKey ("<proto>-<port>" in decimal) as the
// injective 3-byte string proto|port_hi|port_lo.
func vfPolicyKey(protocol uint8, dstPort uint16) string {
	return string([]byte{protocol, byte(dstPort >> 8), byte(dstPort)})
}

// VfNewConfig returns a config with an empty inbound policy.
func VfNewConfig() *Config {
	return &Config{inPolicy: make(map[string]map[netip.Addr]struct{}), FriendsByIP: map[netip.Addr]Friend{}}
}

// VfAddPolicy adds one compiled service policy through the real addInPolicyKey.
func (c *Config) VfAddPolicy(protocol uint8, port uint16, public bool, allowed ...netip.Addr) error {
	return c.addInPolicyKey(makePolicyKey(protocol, port), public, false, allowed)
}
