//go:build verif

package switchr

import (
	"github.com/mycoria/mycoria/config"
	"github.com/mycoria/mycoria/frame"
	"github.com/mycoria/mycoria/m"
	"github.com/mycoria/mycoria/peering"
	"github.com/mycoria/mycoria/state"
)

type vfSwInst struct {
	id *m.Address
	p  *peering.Peering
}

func (i *vfSwInst) Version() string           { return "vf" }
func (i *vfSwInst) Config() *config.Config     { return nil }
func (i *vfSwInst) Identity() *m.Address       { return i.id }
func (i *vfSwInst) State() *state.State        { return nil }
func (i *vfSwInst) Peering() *peering.Peering  { return i.p }

// VfNewSwitch builds a Switch over the given peering registry.
func VfNewSwitch(p *peering.Peering, id *m.Address) *Switch {
	return &Switch{instance: &vfSwInst{id: id, p: p}, routerInput: make(chan frame.Frame, 4)}
}

// VfRouterInput exposes the channel over which the switch hands frames to the router.
func (s *Switch) VfRouterInput() chan frame.Frame { return s.routerInput }

// VfHandleFrame runs one switching step.
func (s *Switch) VfHandleFrame(f frame.Frame) error { return s.handleFrame(f) }
