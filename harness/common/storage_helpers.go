//go:build verif

package storage

import "net/netip"

// VfPut places a record as the loader would (the state file maps addresses to records verbatim).
func (s *MemStorage) VfPut(ip netip.Addr, r *StoredRouter) { s.routers[ip] = r }
