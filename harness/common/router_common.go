//go:build verif

package router

import (
	"net/netip"
	"regexp"

	"github.com/mycoria/mycoria/api/httpapi"
	"github.com/mycoria/mycoria/api/netstack"
	"github.com/mycoria/mycoria/config"
	"github.com/mycoria/mycoria/frame"
	"github.com/mycoria/mycoria/m"
	"github.com/mycoria/mycoria/mgr"
	"github.com/mycoria/mycoria/peering"
	"github.com/mycoria/mycoria/state"
	"github.com/mycoria/mycoria/switchr"
	"github.com/mycoria/mycoria/tun"
	vf "github.com/mycoria/mycoria/zzvf"
)

// vfRInst is the router's view of the instance, assembled from real parts.
type vfRInst struct {
	id      *m.Address
	cfg     *config.Config
	builder *frame.Builder
	st      *state.State
	tunDev  *tun.Device
	sw      *switchr.Switch
	peer    *peering.Peering
}

func (i *vfRInst) Version() string               { return "vf" }
func (i *vfRInst) Config() *config.Config         { return i.cfg }
func (i *vfRInst) Identity() *m.Address           { return i.id }
func (i *vfRInst) FrameBuilder() *frame.Builder   { return i.builder }
func (i *vfRInst) State() *state.State            { return i.st }
func (i *vfRInst) NetStack() *netstack.NetStack   { return nil }
func (i *vfRInst) API() *httpapi.API              { return nil }
func (i *vfRInst) TunDevice() *tun.Device         { return i.tunDev }
func (i *vfRInst) Switch() *switchr.Switch        { return i.sw }
func (i *vfRInst) Peering() *peering.Peering      { return i.peer }

func vfAddrR() netip.Addr {
	var a [16]byte
	copy(a[:], vf.Bytes(16))
	return netip.AddrFrom16(a)
}

func vfMycoAddr() netip.Addr {
	var a [16]byte
	copy(a[:], vf.Bytes(16))
	a[0] = 0xfd
	a[1] &= 0x7f // routing address (not privacy)
	return netip.AddrFrom16(a)
}

func vfIR(a, b bool) bool { return !a || b }

var vfW = &mgr.WorkerCtx{}

// vfMatchPingType models pingTypeRegex (^[a-z0-9\.]+$) on concrete strings.
func vfMatchPingType(s string) bool {
	if len(s) == 0 {
		return false
	}
	for i := 0; i < len(s); i++ {
		c := s[i]
		if !(c >= 'a' && c <= 'z') && !(c >= '0' && c <= '9') && c != '.' {
			return false
		}
	}
	return true
}

var vfPingIDs []uint64

// vfNewPingID models newPingID: a fresh non-zero 64-bit id, distinct from all earlier ones.
func vfNewPingID() uint64 {
	id := vf.U64()
	vf.Assume(id != 0)
	for _, o := range vfPingIDs {
		vf.Assume(o != id)
	}
	vfPingIDs = append(vfPingIDs, id)
	return id
}

func vfMatchRe(re *regexp.Regexp, s string) bool { return vfMatchPingType(s) }
