//go:build verif

package m

import (
	"hash"

	"github.com/mycoria/crop"
	vf "github.com/mycoria/mycoria/zzvf"
)

// vfHasher is the model substituted for crop.Hash.New: it records the exact
// bytes written and returns a digest of the algorithm's length consisting of
// arbitrary bytes — the same bytes whenever the same input (of concrete
// length) is hashed again with the same algorithm (functional consistency).
type vfHasher struct {
	alg  crop.Hash
	size int
	buf  []byte
	sums int
}

type vfDigestRec struct {
	alg    crop.Hash
	in     []byte
	digest []byte
}

var (
	vfHashers []*vfHasher
	vfDigests []*vfDigestRec
)

func vfHashSize(h crop.Hash) int {
	switch h {
	case crop.SHA2_224, crop.SHA2_512_224, crop.SHA3_224:
		return 28
	case crop.SHA2_256, crop.SHA2_512_256, crop.SHA3_256, crop.BLAKE2s_256, crop.BLAKE2b_256, crop.BLAKE3:
		return 32
	case crop.SHA2_384, crop.SHA3_384, crop.BLAKE2b_384:
		return 48
	case crop.SHA2_512, crop.SHA3_512, crop.BLAKE2b_512:
		return 64
	}
	return 0
}

func vfHashNew(h crop.Hash) hash.Hash {
	n := vfHashSize(h)
	if n == 0 {
		return nil // unknown algorithm name, as the real crop.Hash.New
	}
	hs := &vfHasher{alg: h, size: n}
	vfHashers = append(vfHashers, hs)
	return hs
}

func (h *vfHasher) Write(p []byte) (int, error) {
	h.buf = append(h.buf, p...)
	return len(p), nil
}

func (h *vfHasher) Sum(b []byte) []byte {
	h.sums++
	in := make([]byte, len(h.buf))
	copy(in, h.buf)
	var digest []byte
	for _, r := range vfDigests {
		if digest == nil && r.alg == h.alg && len(r.in) == len(in) {
			same := true
			for i := 0; i < len(in); i++ { // concrete lengths only (the generator); symbolic lengths never hash twice
				if r.in[i] != in[i] {
					same = false
				}
			}
			if same {
				digest = r.digest
			}
		}
	}
	if digest == nil {
		digest = vf.FreshBytes(h.size)
		vfDigests = append(vfDigests, &vfDigestRec{alg: h.alg, in: in, digest: digest})
	}
	return append(b, digest...)
}

func (h *vfHasher) Reset()         { h.buf = nil }
func (h *vfHasher) Size() int      { return h.size }
func (h *vfHasher) BlockSize() int { return 64 }

// VfDigests exposes the digests computed so far (for harnesses of other packages).
func VfDigests() [][]byte {
	var out [][]byte
	for _, d := range vfDigests {
		out = append(out, d.digest)
	}
	return out
}

// VfDigestInputs exposes the inputs hashed so far.
func VfDigestInputs() [][]byte {
	var out [][]byte
	for _, d := range vfDigests {
		out = append(out, d.in)
	}
	return out
}
