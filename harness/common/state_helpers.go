//go:build verif

package state

import (
	"crypto/cipher"
	"crypto/ed25519"
	"net/netip"
	"time"

	"github.com/mycoria/mycoria/config"
	"github.com/mycoria/mycoria/m"
	"github.com/mycoria/mycoria/storage"
	vf "github.com/mycoria/mycoria/zzvf"
)

// VfSession builds a session for peer id with the given signing keys and
// AEAD objects, bypassing key exchange (which is C04/C14's business).
func VfSession(id netip.Addr, priv ed25519.PrivateKey, pub ed25519.PublicKey, in, out cipher.AEAD) *Session {
	s := &Session{id: id, address: &m.PublicAddress{IP: id, PublicKey: pub}}
	s.signing = NewSigningSession(priv, pub)
	s.encryption = NewEncryptionSession()
	s.encryption.inCipher = in
	s.encryption.outCipher = out
	s.encryption.inKey = []byte{1}
	s.encryption.outKey = []byte{2}
	return s
}

// VfSeqState puts the sequence handlers of a session into an arbitrary state.
func (s *Session) VfSeqState() {
	s.encryption.reglSeqHandler.highest = vf.U32()
	s.encryption.reglSeqHandler.bitMap = vf.U64()
	s.encryption.prioSeqHandler.highest = vf.U32()
	s.encryption.prioSeqHandler.bitMap = vf.U64()
	s.encryption.reglSeqHandler.outSeq.Store(vf.U32())
	s.encryption.prioSeqHandler.outSeq.Store(vf.U32())
	s.signing.seqHandler.latest = vf.Time()
}

// vfTimeNext models TimeSequenceHandler.Next: an arbitrary instant strictly
// after the previous one (the real one rounds time.Now and bumps it).
func vfTimeNext(sh *TimeSequenceHandler) time.Time {
	t := vf.Time()
	vf.Assume(t.After(sh.out))
	sh.out = t
	return t
}

// vfRolloverKey models rolloverKey (BLAKE3 key derivation + ChaCha20-Poly1305
// construction): the new key is a deterministic function of the old key
// identity (old id + 100), never equal to it.
func vfRolloverKey(oldKey []byte) (newKey []byte, newCipher cipher.AEAD, err error) {
	id := 0
	if len(oldKey) > 0 {
		id = int(oldKey[len(oldKey)-1])
	}
	newKey = []byte{byte(id + 100)}
	return newKey, vf.NewAEAD(id + 100), nil
}

// VfNoRollover: neither the next regular Out nor any In triggers a key rollover.
func (s *Session) VfNoRollover() bool {
	return s.encryption.reglSeqHandler.outSeq.Load() < 0xFFFFFFFE &&
		s.encryption.reglSeqHandler.highest < rolloverUpperBound &&
		s.encryption.prioSeqHandler.highest < rolloverUpperBound
}

// VfEncSession builds a link/end-to-end encryption session around AEAD objects.
func VfEncSession(in, out cipher.AEAD) *EncryptionSession {
	e := NewEncryptionSession()
	e.inCipher = in
	e.outCipher = out
	e.inKey = []byte{1}
	e.outKey = []byte{2}
	return e
}

// VfSeqStateEnc puts the sequence handlers into an arbitrary state within one key epoch.
func (e *EncryptionSession) VfSeqStateEnc() {
	e.reglSeqHandler.highest = vf.U32()
	e.reglSeqHandler.bitMap = vf.U64()
	e.prioSeqHandler.highest = vf.U32()
	e.prioSeqHandler.bitMap = vf.U64()
	e.reglSeqHandler.outSeq.Store(vf.U32())
	e.prioSeqHandler.outSeq.Store(vf.U32())
	vf.Assume(e.reglSeqHandler.outSeq.Load() < 0xFFFFFFFE && e.reglSeqHandler.highest < rolloverUpperBound && e.prioSeqHandler.highest < rolloverUpperBound)
}

// vfRInstance is the instance a harness-built State needs.
type VfInstance struct {
	Id  *m.Address
	Cfg *config.Config
}

func (i *VfInstance) Identity() *m.Address   { return i.Id }
func (i *VfInstance) Config() *config.Config { return i.Cfg }

// VfNewState builds a State that already has sessions for the given peers
// (address records as VerifyAddress accepted them earlier).
func VfNewState(inst instance, peers ...*m.PublicAddress) *State {
	st := &State{sessions: map[netip.Addr]*Session{}, instance: inst, storage: storage.NewMemStorage()}
	for _, p := range peers {
		st.sessions[p.IP] = &Session{id: p.IP, address: p, state: st}
	}
	return st
}

// VfKeys returns the identities of the in/out ciphers (0 when not set up).
func (e *EncryptionSession) VfKeys() (in, out uint64, set bool) {
	if e == nil || e.inCipher == nil || e.outCipher == nil {
		return 0, 0, false
	}
	return e.inCipher.(*vf.AEAD).K, e.outCipher.(*vf.AEAD).K, true
}

// VfEnc returns the current encryption session without creating one.
func (s *Session) VfEnc() *EncryptionSession { return s.encryption }

// VfSeqSnap returns the receive-window state of both classes.
func (e *EncryptionSession) VfSeqSnap() [4]uint64 {
	return [4]uint64{uint64(e.reglSeqHandler.highest), e.reglSeqHandler.bitMap, uint64(e.prioSeqHandler.highest), e.prioSeqHandler.bitMap}
}

// VfPeerSession returns the (pre-created) session for ip.
func (st *State) VfPeerSession(ip netip.Addr) *Session { return st.sessions[ip] }

// VfHasRouter reports whether the storage holds a record for ip.
func (st *State) VfHasRouter(ip netip.Addr) bool {
	r, err := st.storage.GetRouter(ip)
	return err == nil && r != nil
}

// VfSetSignLatest puts the signed-frame timestamp handler of the session into a given state.
func (s *Session) VfSetSignLatest(t time.Time) { s.Signing().seqHandler.latest = t }

// VfSeqAccepts reports whether the real replay window, in the given snapshot
// state (see VfSeqSnap), accepts seq in the regular (prio=false) or priority class.
func VfSeqAccepts(snap [4]uint64, seq uint32, prio bool) bool {
	sh := NewSequenceHandler()
	if prio {
		sh.highest, sh.bitMap = uint32(snap[2]), snap[3]
	} else {
		sh.highest, sh.bitMap = uint32(snap[0]), snap[1]
	}
	return sh.Check(seq) == nil
}

// VfOutCounters returns the sender-side sequence counters (regular, priority).
func (s *Session) VfOutCounters() (regl, prio uint32) {
	return s.encryption.reglSeqHandler.outSeq.Load(), s.encryption.prioSeqHandler.outSeq.Load()
}

// VfTraffic models traffic having flowed from e to peer under the current
// keys: e's out counters advanced arbitrarily (no wrap), peer's windows are in
// some state consistent with having received a subset of those frames.
func (e *EncryptionSession) VfTraffic(peer *EncryptionSession) {
	for k := 0; k < 2; k++ {
		out, in := e.reglSeqHandler, peer.reglSeqHandler
		if k == 1 {
			out, in = e.prioSeqHandler, peer.prioSeqHandler
		}
		x := vf.U32()
		vf.Assume(x >= out.outSeq.Load() && x < 0xFFFFFF00)
		out.outSeq.Store(x)
		h := vf.U32()
		vf.Assume(h >= in.highest && h <= x)
		in.highest = h
		in.bitMap = vf.U64()
	}
}

// VfNextOut is the sequence number the next frame of the class will carry.
func (e *EncryptionSession) VfNextOut(prio bool) uint32 {
	sh := e.reglSeqHandler
	if prio {
		sh = e.prioSeqHandler
	}
	v := sh.outSeq.Load() + 1
	if v == 0 {
		v = 1
	}
	return v
}
