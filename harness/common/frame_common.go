//go:build verif

package frame

import (
	"net"
	"net/netip"

	"github.com/mycoria/mycoria/m"

	vf "github.com/mycoria/mycoria/zzvf"
)

func vfAddr() netip.Addr {
	var a [16]byte
	copy(a[:], vf.Bytes(16))
	return netip.AddrFrom16(a)
}

// vfLink is a minimal LinkAccessor that records what is sent to it.
type vfLink struct {
	id    int
	label m.SwitchLabel
	peer  netip.Addr
	sent  []Frame
	prio  []Frame
	lite  bool
	closing bool
	sendErr error
}

func (l *vfLink) String() string                       { return "vflink" }
func (l *vfLink) Peer() netip.Addr                     { return l.peer }
func (l *vfLink) SwitchLabel() m.SwitchLabel           { return l.label }
func (l *vfLink) PeeringURL() *m.PeeringURL            { return nil }
func (l *vfLink) Outgoing() bool                       { return false }
func (l *vfLink) SendPriority(f Frame) error           { l.prio = append(l.prio, f); vf.Event("link.send"); return l.sendErr }
func (l *vfLink) Send(f Frame) error                   { l.sent = append(l.sent, f); vf.Event("link.send"); return l.sendErr }
func (l *vfLink) LocalAddr() net.Addr                  { return nil }
func (l *vfLink) RemoteAddr() net.Addr                 { return nil }
func (l *vfLink) Latency() uint16                      { return 7 }
func (l *vfLink) FlowControlIndicator() FlowControlFlag { return 0 }
func (l *vfLink) IsClosing() bool                      { return l.closing }

// vfBuilt builds a frame of arbitrary (symbolic) shape on a builder with
// arbitrary margins. All five pooled-slice tiers are reachable.
func vfBuilt(b *Builder) *FrameV1 {
	if vf.Param("margins") == 1 {
		// every margin the builder accepts
		off, ovh := vf.Int(), vf.Int()
		vf.Assume(off >= 0 && off <= 100 && ovh >= 0 && ovh <= 100)
		b.SetFrameMargins(off, ovh)
	} else {
		// the margins instance.go configures (link-frame header and MAC)
		b.SetFrameMargins(12, 16)
	}
	mt := MessageType(vf.U8())
	nsw, nmsg, napx := vf.Int(), vf.Int(), vf.Int()
	vf.Assume(nsw >= 0 && nsw <= 255)
	vf.Assume(nmsg >= 1 && nmsg <= frameV1MessageLimit)
	vf.Assume(napx >= 0 && napx <= frameV1AppendixLimit)
	f, err := b.NewFrameV1(vfAddr(), vfAddr(), mt, vf.Bytes(nsw), vf.Bytes(nmsg), vf.Bytes(napx))
	vf.Assert(err == nil, "build-failed")
	if err != nil {
		vf.Stop()
	}
	return f
}


// VfSignedRange returns the bytes a signature covers.
func (f *FrameV1) VfSignedRange() []byte { return f.data[:f.authIndex] }
