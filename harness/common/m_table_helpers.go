//go:build verif

package m

// VfTable: an arbitrary routing table of n entries satisfying the
// representation invariant of C11 (see vfTable in the C11 harness).
func VfTable(n, H, limit int) *RoutingTable { return vfTable(n, H, limit) }
