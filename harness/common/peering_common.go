//go:build verif

package peering

import (
	"errors"
	"net"
	"net/netip"
	"time"

	"github.com/mycoria/mycoria/config"
	"github.com/mycoria/mycoria/frame"
	"github.com/mycoria/mycoria/m"
	"github.com/mycoria/mycoria/state"
	"github.com/mycoria/mycoria/tun"
	vf "github.com/mycoria/mycoria/zzvf"
)

// vfInstance is the minimal instance the link code needs.
type vfInstance struct {
	builder *frame.Builder
	id      *m.Address
	cfg     *config.Config
	st      *state.State
	rt      *m.RoutingTable
}

func (i *vfInstance) Version() string               { return "vf" }
func (i *vfInstance) Config() *config.Config         { return i.cfg }
func (i *vfInstance) Identity() *m.Address           { return i.id }
func (i *vfInstance) FrameBuilder() *frame.Builder   { return i.builder }
func (i *vfInstance) State() *state.State            { return i.st }
func (i *vfInstance) TunDevice() *tun.Device         { return nil }
func (i *vfInstance) RoutingTable() *m.RoutingTable  { return i.rt }

var errVfIO = errors.New("vf: i/o error")

// vfConn is the wire: every Read delivers an arbitrary number (>= 1) of
// arbitrary bytes or an error; every Write is recorded.
type vfConn struct {
	readsLeft int
	total     int
	first     [2]byte
	written   [][]byte
	writeErr  bool
	closeErr  bool  // Close reports an error (connection already broken underneath)
	reqs      []int // len(b) of every Read call
	before    []int // bytes delivered before that call
	// deadlines: a Read without a deadline can block for ever when the remote stays silent
	deadlineSet, readDeadlineSet bool
	readsWithoutDeadline         int
}

func (c *vfConn) Read(b []byte) (int, error) {
	if !c.deadlineSet && !c.readDeadlineSet {
		c.readsWithoutDeadline++
	}
	c.reqs = append(c.reqs, len(b))
	c.before = append(c.before, c.total)
	if c.readsLeft == 0 || vf.Bool() {
		return 0, errVfIO
	}
	c.readsLeft--
	n := vf.Int()
	vf.Assume(n >= 1 && n <= len(b))
	src := vf.Bytes(n)
	copy(b, src)
	for i := 0; i < 2; i++ {
		if c.total <= i && i < c.total+n {
			c.first[i] = src[i-c.total]
		}
	}
	c.total += n
	return n, nil
}

func (c *vfConn) Write(b []byte) (int, error) {
	if c.writeErr {
		return 0, errVfIO
	}
	cp := make([]byte, len(b))
	copy(cp, b)
	c.written = append(c.written, cp)
	vf.Event("conn.write")
	return len(b), nil
}

func (c *vfConn) Close() error {
	vf.Event("conn.close")
	if c.closeErr {
		return errVfIO
	}
	return nil
}
func (c *vfConn) LocalAddr() net.Addr                { return nil }
func (c *vfConn) RemoteAddr() net.Addr               { return nil }
func (c *vfConn) SetDeadline(t time.Time) error      { c.deadlineSet = !t.IsZero(); return nil }
func (c *vfConn) SetReadDeadline(t time.Time) error  { c.readDeadlineSet = !t.IsZero(); return nil }
func (c *vfConn) SetWriteDeadline(t time.Time) error { return nil }

// VfLink is a recording Link for harnesses of other packages.
type VfLink struct {
	Label   m.SwitchLabel
	PeerIP  netip.Addr
	IsLite  bool
	Closing bool
	Sent    []frame.Frame
	Prio    []frame.Frame
	SendErr error
	Flow    frame.FlowControlFlag
	Lat     uint16
}

func (l *VfLink) String() string             { return "vflink" }
func (l *VfLink) Peer() netip.Addr           { return l.PeerIP }
func (l *VfLink) SwitchLabel() m.SwitchLabel { return l.Label }
func (l *VfLink) GeoMark() string            { return "" }
func (l *VfLink) PeeringURL() *m.PeeringURL  { return nil }
func (l *VfLink) Outgoing() bool             { return false }
func (l *VfLink) Lite() bool                 { return l.IsLite }
func (l *VfLink) SendPriority(f frame.Frame) error {
	l.Prio = append(l.Prio, f)
	vf.Event("link.send")
	return l.SendErr
}
func (l *VfLink) Send(f frame.Frame) error {
	l.Sent = append(l.Sent, f)
	vf.Event("link.send")
	return l.SendErr
}
func (l *VfLink) LocalAddr() net.Addr                          { return nil }
func (l *VfLink) RemoteAddr() net.Addr                         { return nil }
func (l *VfLink) Started() time.Time                           { return time.Time{} }
func (l *VfLink) Uptime() time.Duration                        { return 0 }
func (l *VfLink) Latency() uint16                              { return l.Lat }
func (l *VfLink) AddMeasuredLatency(latency time.Duration)     {}
func (l *VfLink) BytesIn() uint64                              { return 0 }
func (l *VfLink) BytesOut() uint64                             { return 0 }
func (l *VfLink) FlowControlIndicator() frame.FlowControlFlag  { return l.Flow }
func (l *VfLink) IsClosing() bool                              { return l.Closing }
func (l *VfLink) Close(log func())                             { l.Closing = true; vf.Event("link.close") }

// VfNewPeering builds a Peering whose registry holds exactly the given links.
func VfNewPeering(inst instance, links ...Link) *Peering {
	p := &Peering{instance: inst, links: map[netip.Addr]Link{}, linksByLabel: map[m.SwitchLabel]Link{}}
	for _, l := range links {
		p.links[l.Peer()] = l
		p.linksByLabel[l.SwitchLabel()] = l
	}
	return p
}

// VfDrop: the registry no longer holds the link (what RemoveLink does to the two maps).
func (p *Peering) VfDrop(l Link) {
	if p.links[l.Peer()] == l {
		delete(p.links, l.Peer())
	}
	if p.linksByLabel[l.SwitchLabel()] == l {
		delete(p.linksByLabel, l.SwitchLabel())
	}
}
