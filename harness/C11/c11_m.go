//go:build verif

package m

import (
	"net/netip"
	"time"

	vf "github.com/mycoria/mycoria/zzvf"
)

func vfAddr11() netip.Addr {
	var a [16]byte
	copy(a[:], vf.Bytes(16))
	a[0] = 0xfd
	a[1] &= 0x7f
	return netip.AddrFrom16(a)
}

func vfI11(a, b bool) bool { return !a || b }

var vfWithDiscovered bool

// vfEntry builds an arbitrary system-producible routing entry: a direct-peer
// entry (no path, as AddLink adds it) or a gossip entry with 2..H hops, totals
// and routing prefix as AddRoute computes them.
func vfEntry(rt *RoutingTable, H int) *RoutingTableEntry {
	e := &RoutingTableEntry{DstIP: vfAddr11(), NextHop: vfAddr11(), Stub: vf.Bool()}
	kinds := 2
	if vfWithDiscovered {
		kinds = 3 // the clean harness also holds routes of source "discovered" (kept beyond the gossip limit, must still expire)
	}
	kind := vf.Choose(kinds)
	if kind == 0 {
		e.Source = RouteSourcePeer
		e.NextHop = e.DstIP
	} else {
		e.Source = RouteSourceGossip
		if kind == 2 {
			e.Source = RouteSourceDiscovered
		}
		nh := 2 + vf.Choose(H-1)
		e.Path.Hops = make([]SwitchHop, nh)
		for i := range e.Path.Hops {
			e.Path.Hops[i].Router = vfAddr11()
			e.Path.Hops[i].Delay = vf.U16()
			if i < nh-1 {
				e.Path.Hops[i].ForwardLabel = SwitchLabel(1 + vf.U8()%100)
			}
			if i > 0 {
				e.Path.Hops[i].ReturnLabel = SwitchLabel(1 + vf.U8()%100)
			}
		}
		e.Path.Hops[nh-1].Router = e.DstIP
		e.Expires = vf.TimeSec()
	}
	e.Path.CalculateTotals()
	rp, ok := rt.getRoutablePrefixConfig(e.DstIP)
	vf.Assume(ok)
	e.RoutingPrefix, _ = e.DstIP.Prefix(rp.RoutingBits)
	return e
}

// vfTable builds a table with n arbitrary entries satisfying the representation invariant R.
func vfTable(n, H, limit int) *RoutingTable {
	rt := NewRoutingTable(RoutingTableConfig{
		RoutablePrefixes: []RoutablePrefix{{BasePrefix: BaseNetPrefix, RoutingBits: ContinentPrefixBits, EntriesPerPrefix: limit}},
		RouterIP:         vfAddr11(),
	})
	for i := 0; i < n; i++ {
		rt.entries = append(rt.entries, vfEntry(rt, H))
	}
	vf.Assume(vfR(rt))
	return rt
}

// vfR: sorted by stdSort; per destination at most 3 non-peer and at most one peer entry.
func vfR(rt *RoutingTable) bool {
	ok := true
	for i := 0; i+1 < len(rt.entries); i++ {
		if rt.stdSort(rt.entries[i], rt.entries[i+1]) > 0 {
			ok = false
		}
	}
	for i, a := range rt.entries {
		nonPeer, peers := 0, 0
		for _, b := range rt.entries {
			if a.DstIP == b.DstIP {
				if b.Source == RouteSourcePeer {
					peers++
				} else {
					nonPeer++
				}
			}
		}
		if nonPeer > 3 || peers > 1 {
			ok = false
		}
		_ = i
	}
	return ok
}

func vfSnapshot(rt *RoutingTable) []*RoutingTableEntry {
	s := make([]*RoutingTableEntry, len(rt.entries))
	copy(s, rt.entries)
	return s
}

// VfC11Lookup: from any valid table, a lookup for an address that has a route
// returns a route to exactly that address, flagged as destination, namely the
// best one (first in best-first order; a direct-peer route first).
func VfC11Lookup() {
	n := vf.Choose(vf.Param("N") + 1)
	rt := vfTable(n, vf.Param("H"), 2)
	dst := vfAddr11()
	first := -1
	for i, e := range rt.entries {
		if first < 0 && e.DstIP == dst {
			first = i
		}
	}
	rte, isDst := rt.LookupNearest(dst)
	rte2, isDst2 := rt.LookupNearestRoute(dst)
	if n == 0 {
		vf.Assert(rte == nil && !isDst && rte2 == nil && !isDst2, "empty-table-lookup")
		vf.Reach("empty")
		return
	}
	vf.Assert(rte != nil, "lookup-nil-on-non-empty-table")
	if first >= 0 {
		vf.Assert(isDst && rte.DstIP == dst, "lookup-missed-existing-destination")
		vf.Assert(rte == rt.entries[first], "lookup-not-best-route")
		vf.Assert(isDst2 && rte2 == rt.entries[first], "lookup-route-not-best-route")
		vf.Reach("hit")
	} else {
		vf.Assert(!isDst, "lookup-claims-destination-match")
		vf.Reach("miss")
	}
}

// VfC11Remove: RemoveNextHop / RemoveDisconnected(x, nil) on any valid table
// remove exactly the matching entries, keep the others in order, and report the count.
func VfC11Remove() {
	n := vf.Choose(vf.Param("N") + 1)
	rt := vfTable(n, vf.Param("H"), 2)
	before := vfSnapshot(rt)
	x := vfAddr11()
	mode := vf.Choose(3)
	var removed int
	var list []netip.Addr
	switch mode {
	case 0:
		removed = rt.RemoveNextHop(x)
	case 1:
		removed = rt.RemoveDisconnected(x, nil)
	default:
		// the router reports that its links to these peers are gone
		list = []netip.Addr{vfAddr11()}
		if vf.Bool() {
			list = append(list, vfAddr11())
		}
		removed = rt.RemoveDisconnected(x, list)
	}
	inList := func(a netip.Addr) bool {
		for _, l := range list {
			if l == a {
				return true
			}
		}
		return false
	}
	k, cnt := 0, 0
	for _, e := range before {
		match := e.NextHop == x
		switch mode {
		case 1:
			match = e.DstIP == x || e.NextHop == x
			for _, h := range e.Path.Hops {
				if h.Router == x {
					match = true
				}
			}
		case 2:
			// a route goes iff it uses a link between x and one of the listed peers (x's first occurrence in the path)
			match = false
			for i, h := range e.Path.Hops {
				if h.Router == x {
					if i > 0 && inList(e.Path.Hops[i-1].Router) {
						match = true
					}
					if i < len(e.Path.Hops)-1 && inList(e.Path.Hops[i+1].Router) {
						match = true
					}
					break
				}
			}
		}
		if match {
			cnt++
			continue
		}
		vf.Assert(k < len(rt.entries) && rt.entries[k] == e, "unrelated-entry-removed-or-reordered")
		k++
	}
	vf.Assert(k == len(rt.entries), "matching-entry-kept")
	vf.Assert(removed == cnt, "removed-count-wrong")
	vf.Assert(vfR(rt), "invariant-broken-by-removal")
	if cnt > 0 {
		vf.Reach("removed")
	}
	vf.Reach("done")
}

// VfC11Add: AddRoute of an arbitrary system-producible route into any valid table.
func VfC11Add() {
	n := vf.Choose(vf.Param("N") + 1)
	limit := vf.Choose(2)
	rt := vfTable(n, vf.Param("H"), limit)
	ne := vfEntry(rt, vf.Param("H"))
	vfAddCheck(rt, ne, limit)
}

// VfC11AddTop3: the same for the "full destination" case: the table already
// holds three gossip routes to the destination of the new route, followed by a
// route to another destination.
func VfC11AddTop3() {
	limit := vf.Choose(2)
	rt := NewRoutingTable(RoutingTableConfig{
		RoutablePrefixes: []RoutablePrefix{{BasePrefix: BaseNetPrefix, RoutingBits: ContinentPrefixBits, EntriesPerPrefix: limit}},
		RouterIP:         vfAddr11(),
	})
	d, other := vfAddr11(), vfAddr11()
	vf.Assume(d != other)
	mk := func(dst netip.Addr, hops int) *RoutingTableEntry {
		e := &RoutingTableEntry{DstIP: dst, NextHop: vfAddr11(), Source: RouteSourceGossip, Expires: vf.TimeSec()}
		e.Path.Hops = make([]SwitchHop, hops)
		for i := range e.Path.Hops {
			e.Path.Hops[i].Router = vfAddr11()
			e.Path.Hops[i].Delay = vf.U16()
			if i < hops-1 {
				e.Path.Hops[i].ForwardLabel = SwitchLabel(1 + vf.U8()%100)
			}
			if i > 0 {
				e.Path.Hops[i].ReturnLabel = SwitchLabel(1 + vf.U8()%100)
			}
		}
		e.Path.Hops[hops-1].Router = dst
		e.Path.CalculateTotals()
		rp, ok := rt.getRoutablePrefixConfig(dst)
		vf.Assume(ok)
		e.RoutingPrefix, _ = dst.Prefix(rp.RoutingBits)
		return e
	}
	// three different routes to d (a 2-hop route and two 3-hop routes over different routers), then a route elsewhere
	rt.entries = append(rt.entries, mk(d, 2), mk(d, 3), mk(d, 3), mk(other, 2))
	vf.Assume(rt.entries[1].Path.Hops[1].Router != rt.entries[2].Path.Hops[1].Router)
	vf.Assume(vfR(rt))
	ne := mk(d, 3)
	vf.Assume(ne.Path.Hops[1].Router != rt.entries[1].Path.Hops[1].Router && ne.Path.Hops[1].Router != rt.entries[2].Path.Hops[1].Router)
	vf.Reach("full-destination")
	vfAddCheck(rt, ne, limit)
}

func vfAddCheck(rt *RoutingTable, ne *RoutingTableEntry, limit int) {
	before := vfSnapshot(rt)
	arg := *ne
	added, err := rt.AddRoute(arg)
	if err != nil || !added {
		vf.Assert(len(rt.entries) == len(before), "not-added-but-table-changed")
		for i := range before {
			vf.Assert(rt.entries[i] == before[i], "not-added-but-table-changed")
		}
		vf.Reach("not-added")
		return
	}
	// present
	present := false
	for _, e := range rt.entries {
		if e.RouteEquals(&arg) && e.NextHop == arg.NextHop && e.Source == arg.Source {
			present = true
		}
	}
	vf.Assert(present, "added-but-not-present")
	vf.Assert(vfR(rt), "invariant-broken-by-add")
	// every peer entry of before is still there, unless replaced by the new peer entry for the same destination
	for _, b := range before {
		if b.Source != RouteSourcePeer {
			continue
		}
		still := false
		for _, e := range rt.entries {
			if e == b || (e.Source == RouteSourcePeer && e.DstIP == b.DstIP) {
				still = true
			}
		}
		vf.Assert(still, "peer-route-evicted-by-add")
	}
	vf.Assert(len(rt.entries) <= len(before)+1, "add-grew-table-by-more-than-one")
	// bounded size: a gossip route to a destination the table did not have yet is admitted only
	// while its routing prefix holds at most twice the configured number of entries
	if arg.Source == RouteSourceGossip {
		hadDst, inPrefix := false, 0
		for _, b := range before {
			if b.DstIP == arg.DstIP {
				hadDst = true
			}
			if b.RoutingPrefix == ne.RoutingPrefix {
				inPrefix++
			}
		}
		if !hadDst {
			vf.Assert(inPrefix <= 2*limit, "gossip-destination-admitted-beyond-prefix-limit")
			vf.Reach("new-gossip-destination")
		}
	}
	vf.Reach("added")
}

// VfC11Clean: Clean on any valid table (arbitrary clock): no expired non-peer
// route survives, peers are kept, at most `limit` entries per routing prefix
// remain apart from non-gossip ones, and the table is sorted for routing again.
func VfC11Clean() {
	vfWithDiscovered = true
	n := vf.Choose(vf.Param("N") + 1)
	limit := vf.Choose(3)
	rt := vfTable(n, vf.Param("H"), limit)
	before := vfSnapshot(rt)
	t0 := time.Now()
	rt.Clean()
	vf.Assert(vfR(rt), "invariant-broken-by-clean")
	for _, e := range rt.entries {
		// Clean read the clock at or after t0: whatever expired before t0 must be gone
		vf.Assert(vfI11(e.Source != RouteSourcePeer, !e.Expires.Before(t0)), "expired-route-survived-clean")
	}
	for _, b := range before {
		if b.Source == RouteSourcePeer {
			kept := false
			for _, e := range rt.entries {
				if e == b {
					kept = true
				}
			}
			vf.Assert(kept, "peer-route-removed-by-clean")
		}
	}
	for _, e := range rt.entries {
		found := false
		for _, b := range before {
			if e == b {
				found = true
			}
		}
		vf.Assert(found, "clean-invented-entry")
	}
	// per routing prefix: gossip entries within the limit (counting every kept entry of the prefix)
	for _, e := range rt.entries {
		if e.Source != RouteSourceGossip {
			continue
		}
		// the property bounds the GOSSIP routes of a prefix; the code counts every entry of the
		// prefix against the limit, which is stronger as long as the prefix holds no discovered
		// route (those are kept beyond the limit and must expire instead)
		same, gossip, disc := 0, 0, false
		for _, o := range rt.entries {
			if o.RoutingPrefix == e.RoutingPrefix {
				same++
				if o.Source == RouteSourceGossip {
					gossip++
				}
				if o.Source == RouteSourceDiscovered {
					disc = true
				}
			}
		}
		vf.Assert(gossip <= limit, "gossip-entries-over-limit-after-clean")
		if !disc {
			vf.Assert(same <= limit, "gossip-entries-over-limit-after-clean")
		}
	}
	vf.Reach("done")
}
