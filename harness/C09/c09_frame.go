//go:build verif

package frame

import (
	vf "github.com/mycoria/mycoria/zzvf"
)

// VfC09ForwardCopy: the forwarded copy of an announcement can always be
// built. A frame of arbitrary size is received the way the link reader
// receives it (into a pooled slice chosen for the link frame's length, frame
// at offset 12), cloned, and the clone's appendix is replaced by the old
// appendix plus one hop record (65..R bytes), as AnnouncePingHandler.Handle
// does for every peer it forwards to. Within the protocol limits (appendix <=
// 10000) this must succeed, never panic, and leave the received frame intact.
func VfC09ForwardCopy() {
	b := NewFrameBuilder()
	b.SetFrameMargins(12, 16)
	n := vf.Int()
	vf.Assume(n >= 68 && n <= 20200)
	wire := vf.Bytes(n)
	vf.Assume(wire[0] == 1)
	ps := b.GetPooledSlice(n + 12 + 16) // link frame length = header + frame + MAC
	if ps == nil {
		vf.Stop()
	}
	copy(ps[12:], wire)
	fr, err := b.ParseFrame(ps[12:12+n], ps, 12)
	if err != nil {
		vf.Reach("parse-rejects")
		return
	}
	f := fr.(*FrameV1)
	oldApx := len(f.AppendixData())
	c := f.Clone().(*FrameV1)
	// an unmodified copy (the origin sends clones to all but its last link) offers the link writer the same margins
	_, e0 := f.FrameDataWithMargins(12, 16)
	_, e1 := c.FrameDataWithMargins(12, 16)
	vf.Assert(e0 == nil && e1 == nil, "copy-lost-its-link-margins")
	rec := vf.Int()
	vf.Assume(rec >= 65 && rec <= vf.Param("R"))
	vf.Assume(oldApx+rec <= frameV1AppendixLimit)
	err = c.SetAppendixData(vf.Bytes(oldApx + rec))
	vf.Assert(err == nil, "forwarded-copy-cannot-grow-its-appendix")
	if err == nil {
		// the link writer needs its margins around the grown frame
		_, e2 := c.FrameDataWithMargins(12, 16)
		vf.Assert(e2 == nil, "grown-copy-lost-its-link-margins")
		q := vf.Int()
		vf.Assume(q >= 0 && q < c.appendixIndex)
		vf.Assert(c.data[q] == wire[q], "growing-the-copy-changed-protected-bytes")
		vf.Assert(f.data[q] == wire[q] && len(f.data) == n, "growing-the-copy-changed-the-original")
		vf.Reach("grown")
	}
}
