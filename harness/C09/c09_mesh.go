//go:build verif

package router

import (
	"crypto"
	"crypto/ed25519"
	"errors"
	"io"
	"net/netip"

	"github.com/mycoria/crop"
	"github.com/mycoria/mycoria/config"
	"github.com/mycoria/mycoria/frame"
	"github.com/mycoria/mycoria/m"
	"github.com/mycoria/mycoria/mgr"
	"github.com/mycoria/mycoria/peering"
	"github.com/mycoria/mycoria/state"
	"github.com/mycoria/mycoria/switchr"
	vf "github.com/mycoria/mycoria/zzvf"
)

// ---- a tiny honest mesh of real routers ----
// Every node is a real Router (real announce handler, routing table, switch,
// session state) whose links are recording objects; the harness carries the
// frames a link recorded to the neighbour's handler, in every order allowed
// by the delivery window. Crypto and CBOR are ideal and concrete: what was
// marshalled/signed is what unmarshals/verifies, anything else is rejected.

type vfMeshNode struct {
	idx   int
	addr  netip.Addr
	r     *Router
	inst  *vfRInst
	h     *AnnouncePingHandler
	links []*peering.VfLink
}

type vfMeshFrame struct {
	to, from int
	f        frame.Frame
	ann      int   // announcement id (origin frame)
	path     []int // nodes the frame went through, origin first
}

var (
	vfMesh      []*vfMeshNode
	vfMeshQueue []*vfMeshFrame
	vfMeshAnnN  int
)

type vfMTok struct {
	data []byte
	val  any
}

var (
	vfMToks     []vfMTok
	errVfMesh   = errors.New("vf mesh: not a known encoding")
	vfMSigs     []vfMSig
	vfMeshSigN  int
)

type vfMSig struct {
	key int
	msg []byte
	ctx string
	sig []byte
}

func vfMeshMarshal(v any) ([]byte, error) {
	var val any
	n := 24
	switch x := v.(type) {
	case *AnnouncePingMsg:
		cp := *x
		val = &cp
	case AnnouncePingAttachment:
		cp := x
		cp.NextAttachment = append([]byte(nil), x.NextAttachment...)
		val = &cp
		n = 40
	default:
		vf.Assert(false, "mesh-marshal-unknown-type")
	}
	t := make([]byte, n)
	t[0], t[1] = 0xd9, byte(len(vfMToks)+1)
	vfMToks = append(vfMToks, vfMTok{t, val})
	return append([]byte(nil), t...), nil
}

func vfMeshEq(a, b []byte) bool {
	if len(a) != len(b) {
		return false
	}
	for i := range a {
		if a[i] != b[i] {
			return false
		}
	}
	return true
}

func vfMeshUnmarshal(data []byte, v any) error {
	for _, t := range vfMToks {
		if vfMeshEq(t.data, data) {
			switch dst := v.(type) {
			case *AnnouncePingMsg:
				src, ok := t.val.(*AnnouncePingMsg)
				if !ok {
					return errVfMesh
				}
				*dst = *src
			case *AnnouncePingAttachment:
				src, ok := t.val.(*AnnouncePingAttachment)
				if !ok {
					return errVfMesh
				}
				*dst = *src
				dst.NextAttachment = append([]byte(nil), src.NextAttachment...)
			default:
				return errVfMesh
			}
			return nil
		}
	}
	return errVfMesh
}

func vfMeshPrivSign(priv ed25519.PrivateKey, rnd io.Reader, message []byte, opts crypto.SignerOpts) ([]byte, error) {
	ctx := ""
	if o, ok := opts.(*ed25519.Options); ok {
		ctx = o.Context
	}
	vfMeshSigN++
	sig := make([]byte, 64)
	sig[0], sig[1] = 0x51, byte(vfMeshSigN)
	vfMSigs = append(vfMSigs, vfMSig{key: int(priv[63]), msg: append([]byte(nil), message...), ctx: ctx, sig: sig})
	return append([]byte(nil), sig...), nil
}

func vfMeshVerifyOpts(pub ed25519.PublicKey, message, sig []byte, opts *ed25519.Options) error {
	for _, s := range vfMSigs {
		if vfMeshEq(s.sig, sig) {
			if s.key == int(pub[31]) && vfMeshEq(s.msg, message) && s.ctx == opts.Context {
				return nil
			}
			return errVfMesh
		}
	}
	return errVfMesh
}

func vfMeshAddInfo(st *state.State, id netip.Addr, info *m.RouterInfo) error { return nil }

// vfMeshSendPing stands for sendPingMsg: builds the announcement frame, gives
// it a unique origin signature and sends it on all links (as the real code
// does for frames addressed to all routers).
func vfMeshSendPing(r *Router, opts sendPingOpts) error {
	f, err := r.instance.FrameBuilder().NewFrameV1(r.instance.Identity().IP, opts.dst, opts.msgType, nil, opts.pingData, nil)
	if err != nil {
		return err
	}
	vfMeshSigN++
	auth := f.AuthData()
	auth[0], auth[1] = 0x77, byte(vfMeshSigN)
	f.SetTTL(32)
	links := r.instance.Peering().GetLinks()
	for i, link := range links {
		var sendFrame frame.Frame
		if i < len(links)-1 {
			sendFrame = f.Clone()
		} else {
			sendFrame = f
		}
		if err := r.instance.Switch().ForwardByPeer(sendFrame, link.Peer()); err != nil {
			return err
		}
	}
	return nil
}

func vfMeshAddr(i int) netip.Addr {
	a := [16]byte{0xfd, 0x10}
	a[15] = byte(i + 1)
	return netip.AddrFrom16(a)
}

func vfMeshLat() uint16 {
	if vf.Param("LAT") == 1 {
		return vf.U16() // arbitrary link latencies
	}
	return 7
}

var vfMeshLabelN int

func vfMeshLabel() m.SwitchLabel {
	vfMeshLabelN++
	if vfMeshLabelN > vf.Param("SYM") {
		return m.SwitchLabel(10 + vfMeshLabelN) // concrete 1-byte label (distinct)
	}
	l := m.SwitchLabel(vf.U16())
	vf.Assume(l >= 1 && l <= m.MaxPrivateSwitchLabel)
	return l
}

// vfMeshBuild creates n nodes and the links of the chosen topology.
func vfMeshBuild(n int, edges [][2]int) {
	vfMesh = nil
	for i := 0; i < n; i++ {
		addr := vfMeshAddr(i)
		key := make([]byte, 64)
		key[63] = byte(100 + i)
		id := &m.Address{PublicAddress: m.PublicAddress{IP: addr, Hash: crop.BLAKE3, Type: crop.KeyPairTypeEd25519, PublicKey: ed25519.PublicKey(key[32:])}, PrivateKey: ed25519.PrivateKey(key)}
		cfg := &config.Config{}
		inst := &vfRInst{id: id, cfg: cfg, builder: frame.NewFrameBuilder()}
		inst.builder.SetFrameMargins(12, 16)
		vfMesh = append(vfMesh, &vfMeshNode{idx: i, addr: addr, inst: inst})
	}
	for _, nd := range vfMesh {
		var peers []*m.PublicAddress
		for _, o := range vfMesh {
			if o != nd {
				pa := o.inst.id.PublicAddress
				peers = append(peers, &pa)
			}
		}
		nd.inst.st = state.VfNewState(&state.VfInstance{Id: nd.inst.id, Cfg: nd.inst.cfg}, peers...)
	}
	for _, e := range edges {
		a, b := vfMesh[e[0]], vfMesh[e[1]]
		a.links = append(a.links, &peering.VfLink{Label: vfMeshLabel(), PeerIP: b.addr, Lat: vfMeshLat()})
		b.links = append(b.links, &peering.VfLink{Label: vfMeshLabel(), PeerIP: a.addr, Lat: vfMeshLat()})
	}
	for _, nd := range vfMesh {
		ls := make([]peering.Link, len(nd.links))
		for i, l := range nd.links {
			ls[i] = l
			for j := 0; j < i; j++ {
				vf.Assume(nd.links[j].Label != l.Label)
			}
		}
		nd.inst.peer = peering.VfNewPeering(nil, ls...)
		nd.inst.sw = switchr.VfNewSwitch(nd.inst.peer, nd.inst.id)
		prefix, _ := nd.addr.Prefix(m.RegionPrefixBits)
		nd.r = &Router{instance: nd.inst, table: m.NewRoutingTable(m.RoutingTableConfig{RoutablePrefixes: m.GetRoutablePrefixesFor(nd.addr, prefix), RouterIP: nd.addr})}
		nd.r.ErrorPing = &ErrorPingHandler{r: nd.r}
		nd.h = NewAnnouncePingHandler(nd.r)
		nd.r.AnnouncePing = nd.h
		// the direct-peer routes AddLink registers
		for _, l := range nd.links {
			added, err := nd.r.table.AddRoute(m.RoutingTableEntry{DstIP: l.PeerIP, NextHop: l.PeerIP, Source: m.RouteSourcePeer})
			vf.Assert(added && err == nil, "mesh-peer-route-not-added")
		}
	}
}

func vfMeshNodeOf(a netip.Addr) *vfMeshNode {
	for _, nd := range vfMesh {
		if nd.addr == a {
			return nd
		}
	}
	return nil
}

func (nd *vfMeshNode) linkTo(o *vfMeshNode) *peering.VfLink {
	for _, l := range nd.links {
		if l.PeerIP == o.addr {
			return l
		}
	}
	return nil
}

// vfMeshCollect moves what node nd's links recorded into the queue.
func vfMeshCollect(nd *vfMeshNode, cause *vfMeshFrame) {
	for _, l := range nd.links {
		frames := append(append([]frame.Frame(nil), l.Sent...), l.Prio...)
		l.Sent, l.Prio = nil, nil
		for _, f := range frames {
			to := vfMeshNodeOf(l.PeerIP)
			mf := &vfMeshFrame{to: to.idx, from: nd.idx, f: f}
			if cause == nil {
				vfMeshAnnN++
				mf.ann, mf.path = vfMeshAnnN, []int{nd.idx}
			} else {
				mf.ann = cause.ann
				mf.path = append(append([]int(nil), cause.path...), nd.idx)
				// flooding discipline
				org := cause.path[0]
				vf.Assert(to.idx != org, "announcement-sent-to-its-origin")
				vf.Assert(to.idx != cause.from, "announcement-sent-back-over-arrival-link")
				for _, p := range cause.path {
					vf.Assert(to.idx != p, "announcement-sent-to-router-in-its-hop-list")
				}
			}
			vfMeshQueue = append(vfMeshQueue, mf)
		}
	}
}

var vfMeshTopologies = [][][2]int{
	{{0, 1}, {1, 2}},         // line of 3
	{{0, 1}, {1, 2}, {0, 2}}, // triangle
	{{0, 1}, {0, 2}, {0, 3}}, // star of 4
	{{0, 1}, {1, 2}, {2, 3}}, // line of 4
	{{0, 1}, {1, 2}, {2, 3}, {3, 0}}, // ring of 4
}

func vfMeshSize(t int) int {
	if t <= 1 {
		return 3
	}
	return 4
}

// VfC09Mesh: in a tiny honest mesh (topology T of the table above, symbolic
// 1- and 2-byte link labels and link latencies) every router announces itself
// (the real announceRouter), and the frames are delivered in every order the
// delivery window W allows until none is left. Then every router holds an
// exact-destination route to every other router whose forward labels lead
// there over the links; flooding sent nothing to an origin, back over an
// arrival link or to a router already passed, carried every loop-free path at
// most once per announcement, and ended within the delivery bound; and a
// frame routed hop by hop from any router to any other is handed to the
// destination's handlers and to no other router's.
func VfC09Mesh() {
	T, W := vf.Param("T"), vf.Param("W")
	n := vfMeshSize(T)
	vfMeshBuild(n, vfMeshTopologies[T])
	maxDeliveries := vf.Param("MAXD")
	deliveries := 0
	type pathKey struct {
		ann  int
		path [5]int
		to   int
	}
	var travelled []pathKey
	origins := n
	if vf.Param("ONE") == 1 {
		origins = 1 // one (arbitrary) origin only: keeps the order exploration small
	}
	first := 0
	if origins == 1 {
		first = vf.Choose(n)
	}
	for o := first; o < first+origins; o++ {
		org := vfMesh[o]
		org.r.announceRouter(vfW)
		vfMeshCollect(org, nil)
		for len(vfMeshQueue) > 0 {
			deliveries++
			vf.Assert(deliveries <= maxDeliveries, "flooding-does-not-terminate-within-bound")
			if deliveries > maxDeliveries {
				vf.Stop()
			}
			w := len(vfMeshQueue)
			if w > W {
				w = W
			}
			k := 0
			if w > 1 {
				k = vf.Choose(w)
			}
			mf := vfMeshQueue[k]
			vfMeshQueue = append(vfMeshQueue[:k:k], vfMeshQueue[k+1:]...)
			// each loop-free path at most once per announcement
			key := pathKey{ann: mf.ann, to: mf.to}
			for i, p := range mf.path {
				key.path[i] = p + 1
			}
			for _, t := range travelled {
				vf.Assert(t != key, "announcement-travelled-a-path-twice")
			}
			travelled = append(travelled, key)
			to, from := vfMesh[mf.to], vfMesh[mf.from]
			mf.f.SetRecvLink(to.linkTo(from))
			_ = to.h.Handle(vfW, mf.f, &PingHeader{}, mf.f.MessageData())
			vfMeshCollect(to, mf)
		}
	}
	vf.Reach("drained")
	if origins == n {
		// reach: exact-destination routes whose forward labels lead to the destination
		for _, a := range vfMesh {
			for _, b := range vfMesh {
				if a == b {
					continue
				}
				rte, isDst := a.r.table.LookupNearest(b.addr)
				vf.Assert(rte != nil && isDst && rte.DstIP == b.addr, "no-exact-route-after-convergence")
				if rte == nil {
					continue
				}
				cur := a
				if rte.Source == m.RouteSourcePeer {
					cur = vfMeshNodeOf(rte.NextHop)
				} else {
					for h := 0; h+1 < len(rte.Path.Hops); h++ {
						l := cur.inst.peer.GetLinkByLabel(rte.Path.Hops[h].ForwardLabel)
						vf.Assert(l != nil, "route-forward-label-names-no-link")
						if l == nil {
							vf.Stop()
						}
						cur = vfMeshNodeOf(l.Peer())
					}
				}
				vf.Assert(cur == b, "route-forward-labels-lead-elsewhere")
			}
		}
		vf.Reach("converged")
		// delivery: a frame routed from a to b reaches b's handlers and nobody else's
		ai := vf.Choose(n)
		bi := vf.Choose(n)
		vf.Assume(ai != bi)
		a, b := vfMesh[ai], vfMesh[bi]
		f, err := a.inst.builder.NewFrameV1(a.addr, b.addr, frame.RouterPing, nil, []byte("request"), nil)
		if err != nil {
			vf.Stop()
		}
		vfC10Handled = nil
		vf.Assert(a.r.RouteFrame(f) == nil, "origin-cannot-route-to-destination")
		cur := a
		for hop := 0; hop < n; hop++ {
			var next *vfMeshNode
			var nf frame.Frame
			for _, l := range cur.links {
				vf.Assert(len(l.Sent) == 0 && len(l.Prio) <= 1, "routed-frame-duplicated")
				if len(l.Prio) == 1 {
					vf.Assert(next == nil, "routed-frame-sent-on-two-links")
					nf, next = l.Prio[0], vfMeshNodeOf(l.PeerIP)
					l.Prio = nil
				}
			}
			if next == nil {
				break
			}
			nf.SetRecvLink(next.linkTo(cur))
			vf.Assert(next.inst.sw.VfHandleFrame(nf) == nil, "switch-refused-routed-frame")
			in := next.inst.sw.VfRouterInput()
			if len(in) == 0 {
				vf.Stop() // the switch drops a frame when the router's input queue is full (select/default): overload is outside this claim
			}
			vf.Assert(len(in) == 1, "routed-frame-not-handed-to-router")
			g := <-in
			_ = next.r.handleFrame(vfW, g)
			if len(vfC10Handled) > 0 {
				vf.Assert(next == b, "routed-frame-handed-to-other-routers-handlers")
				vf.Reach("delivered")
				break
			}
			cur = next
		}
		vf.Assert(len(vfC10Handled) == 1, "routed-frame-not-delivered")
	}
}

var _ = mgr.New
