//go:build verif

package frame

import (
	"crypto/ed25519"

	"github.com/mycoria/mycoria/state"
	vf "github.com/mycoria/mycoria/zzvf"
)

// Keys are distinct constants; the models identify a key by its last byte.
func vfKey(id byte, n int) []byte {
	k := make([]byte, n)
	k[n-1] = id
	return k
}

const (
	kSignA  = 11 // A's signing key pair (private at A, public at B)
	kSignB  = 12
	kEncAB  = 21 // A -> B direction AEAD key
	kEncBA  = 22
	kOther  = 99
)

// sessions: sA = A's session for peer B; sB = B's session for peer A.
func vfSessions(f *FrameV1) (sA, sB *state.Session) {
	sA = state.VfSession(f.dst, ed25519.PrivateKey(vfKey(kSignA, 64)), ed25519.PublicKey(vfKey(kSignB, 32)), vf.NewAEAD(kEncBA), vf.NewAEAD(kEncAB))
	sB = state.VfSession(f.src, ed25519.PrivateKey(vfKey(kSignB, 64)), ed25519.PublicKey(vfKey(kSignA, 32)), vf.NewAEAD(kEncAB), vf.NewAEAD(kEncBA))
	sA.VfSeqState()
	sB.VfSeqState()
	// key rollover (sender wrap / receiver window at the wrap) is C15's subject: keep both ends inside one key epoch here
	vf.Assume(sA.VfNoRollover() && sB.VfNoRollover())
	return
}

func vfI(a, b bool) bool { return !a || b }

// VfC02RoundTrip: layout round trip, sender/receiver agreement on exactly
// which bytes go to the primitive, hop-mutable fields excluded, no plaintext
// left after sealing, double sealing refused.
func VfC02RoundTrip() {
	b := NewFrameBuilder()
	f := vfBuilt(b)
	sA, sB := vfSessions(f)
	cls := f.MessageType().Class()
	msgLen := len(f.MessageData())
	plain := make([]byte, msgLen)
	copy(plain, f.MessageData())
	q := vf.Int() // skolem index into the message
	vf.Assume(q >= 0 && q < msgLen)

	r0, p0 := sA.VfOutCounters()
	err := f.Seal(sA)
	if err == nil {
		// the sequence number comes from the counter of the class the receiver will check it in
		r1, p1 := sA.VfOutCounters()
		switch cls {
		case MessageClassPriorityEncrypted:
			vf.Assert(p1 == p0+1 && r1 == r0 && f.SequenceNum() == p1, "priority-frame-numbered-from-other-counter")
		case MessageClassEncrypted:
			vf.Assert(r1 == r0+1 && p1 == p0 && f.SequenceNum() == r1, "regular-frame-numbered-from-other-counter")
		default:
			vf.Assert(r1 == r0 && p1 == p0, "signed-frame-consumed-sequence-number")
		}
	}
	if cls == MessageClassUnknown {
		vf.Assert(err != nil, "unknown-class-sealed")
		vf.Reach("unknown-class")
		return
	}
	if err != nil {
		// the only legitimate refusal: the priority sequence space is exhausted
		vf.Assert(cls == MessageClassPriorityEncrypted, "seal-failed")
		vf.Reach("seal-refused")
		return
	}
	vf.Assert(f.TTL() == 32 && f.FlowControl() == 0, "seal-changed-ttl-or-flow")
	vf.Assert(f.Seal(sA) != nil, "double-seal-accepted")

	// what goes on the wire, then hop-mutable fields and appendix change arbitrarily
	w, err := f.FrameDataWithMargins(0, 0)
	vf.Assert(err == nil && len(w) == len(f.data), "frame-data")
	wire := make([]byte, len(w))
	copy(wire, w)
	wire[1] = vf.U8()
	wire[2] = vf.U8()
	vf.Havoc(wire[f.appendixIndex:])

	g, err := b.ParseFrameV1(wire, nil, 0)
	vf.Assert(err == nil, "parse-failed")
	vf.Assert(g.messageIndex == f.messageIndex && g.authIndex == f.authIndex && g.appendixIndex == f.appendixIndex, "parse-indices")
	vf.Assert(g.SrcIP() == f.src && g.DstIP() == f.dst, "parse-addresses")
	vf.Assert(g.MessageType() == f.MessageType(), "parse-type")
	ttl, fl := g.TTL(), g.FlowControl()
	err = g.Unseal(sB)
	vf.Assert(g.TTL() == ttl && g.FlowControl() == fl, "unseal-changed-ttl-or-flow")

	if cls == MessageClassSigned {
		vf.Assert(len(vf.Signs) == 1 && len(vf.Verifies) == 1 && len(vf.Seals) == 0 && len(vf.Opens) == 0, "signed-primitive-calls")
		s, v := vf.Signs[0], vf.Verifies[0]
		vf.Assert(s.KeyID == kSignA && v.KeyID == kSignA, "signed-keys")
		vf.Assert(len(s.Msg) == f.authIndex && len(v.Msg) == len(s.Msg), "signed-range-length")
		p := vf.Int()
		vf.Assume(p >= 0 && p < len(s.Msg))
		vf.Assert(v.Msg[p] == s.Msg[p], "signed-range-bytes-differ")
		vf.Assert(s.Msg[1] == 0 && s.Msg[2] == 0, "ttl-flow-not-zeroed-for-signing")
		vf.Assert(vfI(p != 1 && p != 2, s.Msg[p] == f.data[p]), "signed-range-not-frame-bytes")
		k := vf.Int()
		vf.Assume(k >= 0 && k < 64)
		vf.Assert(len(v.Sig) == 64 && v.Sig[k] == s.Sig[k], "signature-bytes-differ")
		vf.Assert(f.data[f.authIndex+k] == s.Sig[k], "signature-not-stored")
		// outcome: nil only if the primitive accepted; accepted + sequence ok => nil
		vf.Assert(vfI(err == nil, v.OK), "unseal-ok-without-verify")
		vf.Assert(g.MessageData()[q] == plain[q], "signed-payload-changed")
		vf.Reach("signed")
	} else {
		vf.Assert(len(vf.Seals) == 1 && len(vf.Signs) == 0 && len(vf.Verifies) == 0, "encrypted-primitive-calls")
		s := vf.Seals[0]
		vf.Assert(s.KeyID == kEncAB, "seal-key")
		vf.Assert(len(s.In) == msgLen && s.In[q] == plain[q], "sealed-plaintext")
		vf.Assert(s.SameBuf && s.DstOff == s.InOff, "seal-not-in-place")
		vf.Assert(len(s.Out) == msgLen+16, "seal-output-length")
		// no plaintext survives: the message area and auth area hold exactly the cipher output
		vf.Assert(f.MessageData()[q] == s.Out[q], "plaintext-left-in-frame")
		vf.Assert(len(s.AAD) == f.messageIndex+2, "aad-length")
		if len(vf.Opens) == 1 {
			o := vf.Opens[0]
			vf.Assert(o.KeyID == kEncAB, "open-key")
			k := vf.Int()
			vf.Assume(k >= 0 && k < 12)
			vf.Assert(o.Nonce[k] == s.Nonce[k] && s.Nonce[k] == f.data[4+k], "nonce-differs")
			vf.Assert(len(o.AAD) == len(s.AAD), "aad-length-differs")
			p := vf.Int()
			vf.Assume(p >= 0 && p < len(s.AAD))
			vf.Assert(o.AAD[p] == s.AAD[p], "aad-differs")
			vf.Assert(s.AAD[1] == 0 && s.AAD[2] == 0, "ttl-flow-not-zeroed-for-aead")
			vf.Assert(vfI(p != 1 && p != 2, s.AAD[p] == f.data[p]), "aad-not-frame-bytes")
			vf.Assert(len(o.In) == len(s.Out), "ciphertext-length-differs")
			c := vf.Int()
			vf.Assume(c >= 0 && c < len(s.Out))
			vf.Assert(o.In[c] == s.Out[c], "ciphertext-differs")
			vf.Assert(vfI(err == nil, o.OK), "unseal-ok-without-open")
			if o.OK {
				vf.Assert(g.MessageData()[q] == plain[q], "decrypted-payload-differs")
				vf.Reach("decrypted")
			}
		} else {
			// In() refused before opening (e.g. priority rollover request): must be an error
			vf.Assert(len(vf.Opens) == 0 && err != nil, "no-open-but-ok")
			vf.Reach("in-refused")
		}
		vf.Reach("encrypted")
	}
	if err == nil {
		vf.Reach("unsealed")
	}
}

// VfC02Tamper: one protected byte of the sealed frame is changed to a
// different value; the receiver (which re-parses the changed bytes) then
// hands its primitive an input that differs from what the sender's primitive
// saw/produced — in class, length or at least one byte. Under the ideal
// primitives that is rejection.
func VfC02Tamper() {
	b := NewFrameBuilder()
	f := vfBuilt(b)
	sA, sB := vfSessions(f)
	cls := f.MessageType().Class()
	if cls == MessageClassUnknown {
		return
	}
	err := f.Seal(sA)
	if err != nil {
		vf.Assert(cls == MessageClassPriorityEncrypted, "seal-failed")
		return
	}
	wire := make([]byte, len(f.data))
	copy(wire, f.data)
	p := vf.Int()
	vf.Assume(p >= 0 && p < f.appendixIndex && p != 1 && p != 2)
	nv := vf.U8()
	vf.Assume(nv != wire[p])
	wire[p] = nv

	g, err := b.ParseFrameV1(wire, nil, 0)
	if err != nil {
		vf.Reach("parse-rejects")
		return
	}
	err = g.Unseal(sB)
	cls2 := g.MessageType().Class()
	if cls2 == MessageClassUnknown {
		vf.Assert(err != nil, "unknown-class-unsealed")
		vf.Reach("class-unknown")
		return
	}
	if cls2 != cls && (cls2 == MessageClassSigned || cls == MessageClassSigned) {
		// different primitive and key domain: nothing the sender produced can match
		vf.Reach("class-changed")
		return
	}
	if cls == MessageClassSigned {
		s, v := vf.Signs[0], vf.Verifies[0]
		differs := len(v.Msg) != len(s.Msg)
		if !differs {
			if p < len(s.Msg) {
				differs = v.Msg[p] != s.Msg[p]
			} else {
				differs = v.Sig[p-len(s.Msg)] != s.Sig[p-len(s.Msg)]
			}
		}
		vf.Assert(differs, "tampered-byte-not-covered-signed")
		vf.Reach("signed")
		return
	}
	if len(vf.Opens) == 0 {
		vf.Assert(err != nil, "no-open-but-ok")
		vf.Reach("in-refused")
		return
	}
	s, o := vf.Seals[0], vf.Opens[0]
	differs := len(o.AAD) != len(s.AAD) || len(o.In) != len(s.Out)
	if !differs {
		if p < len(s.AAD) {
			differs = o.AAD[p] != s.AAD[p]
		} else {
			differs = o.In[p-len(s.AAD)] != s.Out[p-len(s.AAD)]
		}
	}
	// priority vs regular encrypted use different sequence spaces but the same key: the type byte is in nonce and AAD
	vf.Assert(differs, "tampered-byte-not-covered-aead")
	vf.Reach("encrypted")
}
