//go:build verif

package router

import (
	"net/netip"

	"github.com/mycoria/mycoria/config"
	"github.com/mycoria/mycoria/frame"
	"github.com/mycoria/mycoria/m"
	"github.com/mycoria/mycoria/state"
	"github.com/mycoria/mycoria/tun"
	vf "github.com/mycoria/mycoria/zzvf"
)

var errVfSend = vfErr("vf: cannot send error ping")

type vfErr string

func (e vfErr) Error() string { return string(e) }

// vfSendError models ErrorPingHandler.sendError: the error ping is recorded; sending may fail.
func vfSendError(h *ErrorPingHandler, to netip.Addr, msgType frame.MessageType, code errCode, data any) error {
	vf.Event("errorping")
	if vf.Bool() {
		return errVfSend
	}
	return nil
}

const kTrafficIn = 41

// VfC06Inbound: an arbitrary NetworkTraffic frame from a known router arrives
// for this router; the configuration holds one service policy (symbolic
// protocol/port, public or one allowed address). The frame is handed to the
// tun device only if it unsealed under the sender's session, inner source and
// destination equal the frame's, the destination is not internal, traffic
// handling is on and the policy admits (protocol, port, sender). Whatever the
// outcome, the frame is released at most once by handler + frameHandler.
func VfC06Inbound() {
	own, peer := vfMycoAddr(), vfMycoAddr()
	vf.Assume(own != peer)
	id := &m.Address{PublicAddress: m.PublicAddress{IP: own}}
	cfg := config.VfNewConfig()
	svcProto, svcPort, svcPublic, svcAllowed := vf.U8(), vf.U16(), vf.Bool(), vfMycoAddr()
	if svcPublic {
		_ = cfg.VfAddPolicy(svcProto, svcPort, true)
	} else {
		_ = cfg.VfAddPolicy(svcProto, svcPort, false, svcAllowed)
	}
	inst := &vfRInst{id: id, cfg: cfg, builder: frame.NewFrameBuilder(), tunDev: &tun.Device{SendFrame: make(chan frame.Frame, 1)}}
	inst.st = state.VfNewState(&state.VfInstance{Id: id, Cfg: cfg}, &m.PublicAddress{IP: peer})
	hasKeys := vf.Bool() // the sender's session may have lost (or never had) its end-to-end keys
	if hasKeys {
		enc := state.VfEncSession(vf.NewAEAD(kTrafficIn), vf.NewAEAD(42))
		enc.VfSeqStateEnc()
		inst.st.VfPeerSession(peer).SetEncryptionSession(enc)
	}
	r := &Router{instance: inst, connStates: make(map[connStateKey]*connStateEntry)}
	r.ErrorPing = NewErrorPingHandler(r)
	traffic := vf.Bool()
	r.handleTraffic.Store(traffic)

	n := vf.Int()
	vf.Assume(n >= 1 && n <= 120)
	src := peer
	if vf.Choose(2) == 1 {
		src = vfMycoAddr() // a router we have no session with
		vf.Assume(src != peer && src != own)
	}
	f, err := inst.builder.NewFrameV1(src, own, frame.NetworkTraffic, nil, vf.Bytes(n), nil)
	if err != nil {
		vf.Stop()
	}
	// the connection cache is empty, or holds one arbitrary entry (any key, any status) from earlier traffic
	cached := vf.Bool()
	var ck connStateKey
	var cst connStatus
	if cached {
		ck = connStateKey{localIP: vfMycoAddr(), remoteIP: vfMycoAddr(), protocol: vf.U8(), localPort: vf.U16(), remotePort: vf.U16()}
		cst = connStatus(vf.U8() % 6)
		e := &connStateEntry{notify: make(chan connStatus)}
		e.status.Store(uint32(cst))
		r.connStates[ck] = e
	}

	// the frameHandler loop body
	err = r.handleFrame(vfW, f)
	if err != nil {
		f.ReturnToPool()
	}

	delivered := len(inst.tunDev.SendFrame) == 1
	if delivered {
		vf.Assert(err == nil, "delivered-and-error")
		vf.Assert(src == peer && len(vf.Opens) == 1 && vf.Opens[0].OK && vf.Opens[0].KeyID == kTrafficIn, "delivered-without-unseal-under-sender-session")
		pd := f.MessageData()
		vf.Assert(len(pd) >= 44, "delivered-short-packet")
		// "its inner IPv6 source and destination": what goes to the interface is an IPv6 packet. With
		// another version nibble the interface reads other offsets than the ones the policy was
		// evaluated on (an IPv4 header has its protocol at byte 9, its addresses at 12..20).
		vf.Assert(pd[0]>>4 == 6, "delivered-packet-that-is-not-ipv6")
		var is, idst [16]byte
		copy(is[:], pd[8:24])
		copy(idst[:], pd[24:40])
		vf.Assert(netip.AddrFrom16(is) == f.SrcIP(), "delivered-with-spoofed-inner-source")
		vf.Assert(netip.AddrFrom16(idst) == f.DstIP(), "delivered-with-foreign-inner-destination")
		vf.Assert(!m.InternalPrefix.Contains(f.DstIP()), "delivered-to-internal-range")
		vf.Assert(traffic, "delivered-while-traffic-handling-off")
		proto := pd[6]
		var port uint16
		if proto == 6 || proto == 17 {
			port = uint16(pd[42])<<8 | uint16(pd[43])
		}
		var sport uint16
		if proto == 6 || proto == 17 {
			sport = uint16(pd[40])<<8 | uint16(pd[41])
		}
		hit := cached && ck == connStateKey{localIP: own, remoteIP: peer, protocol: proto, localPort: port, remotePort: sport}
		if hit {
			// an existing connection entry decides (stateful): only an allowed one lets the packet through
			vf.Assert(cst == connStatusAllowed, "delivered-on-non-allowed-connection-state")
			vf.Reach("delivered-by-connection-state")
		} else {
			vf.Assert(proto == svcProto && port == svcPort && (svcPublic || peer == svcAllowed), "delivered-against-policy")
		}
		vf.Reach("delivered")
	} else {
		if src == peer && !hasKeys {
			// C14: traffic under keys this router does not have is answered with an error ping
			// (which makes the sender clear its session and set up again), never silently dropped
			vf.Assert(vf.Count("errorping") == 1, "traffic-without-keys-not-answered-with-error-ping")
			vf.Reach("no-keys-error-ping")
		}
		vf.Reach("dropped")
	}
}

func vfHelloSend(h *HelloPingHandler, dst netip.Addr) (<-chan struct{}, error) {
	vf.Event("hello.send")
	vfHelloDst = append(vfHelloDst, dst)
	return nil, ErrAlreadyActive // the caller drops the packet that triggered the setup
}

var (
	vfHelloDst []netip.Addr
	vfRouted   []frame.Frame
)

func vfRouteFrame(r *Router, f frame.Frame) error {
	vfRouted = append(vfRouted, f)
	return nil
}

func vfRespondWithError(r *Router, to netip.Addr, packetData []byte, status connStatus) error {
	vf.Event("icmp.error")
	return nil
}

func vfTooBig(r *Router, to netip.Addr, mtu int, packetData []byte) error {
	vf.Event("icmp.toobig")
	return nil
}

// VfC06Outbound: an arbitrary packet from the local interface: it enters the
// mesh (as sealed traffic, or as the hello that precedes it) only if it is
// IPv6, at least 44 bytes, its source is the router's own address, its
// destination is a non-multicast Mycoria address other than the API address,
// traffic handling is on and - with isolation - the destination is a friend.
func VfC06Outbound() {
	own, peer, friend := vfMycoAddr(), vfMycoAddr(), vfMycoAddr()
	vf.Assume(own != peer)
	id := &m.Address{PublicAddress: m.PublicAddress{IP: own}}
	cfg := config.VfNewConfig()
	cfg.Router.Isolate = vf.Bool()
	cfg.FriendsByIP[friend] = config.Friend{Name: "f", IP: friend}
	inst := &vfRInst{id: id, cfg: cfg, builder: frame.NewFrameBuilder(), tunDev: &tun.Device{SendFrame: make(chan frame.Frame, 1)}}
	inst.st = state.VfNewState(&state.VfInstance{Id: id, Cfg: cfg}, &m.PublicAddress{IP: peer})
	encSet := vf.Bool()
	if encSet {
		enc := state.VfEncSession(vf.NewAEAD(43), vf.NewAEAD(44))
		enc.VfSeqStateEnc()
		inst.st.VfPeerSession(peer).SetEncryptionSession(enc)
	}
	mtu := vf.Int() // the peer's tun MTU learned in an earlier hello (0 = never), whether or not keys are still there
	vf.Assume(mtu >= 0 && mtu <= 65535)
	inst.st.VfPeerSession(peer).SetTunMTU(mtu)
	r := &Router{instance: inst, connStates: make(map[connStateKey]*connStateEntry)}
	r.HelloPing = NewHelloPingHandler(r)
	traffic := vf.Bool()
	r.handleTraffic.Store(traffic)

	n := vf.Int()
	vf.Assume(n >= 0 && n <= 100)
	ps := inst.builder.GetPooledSlice(200)
	copy(ps, vf.Bytes(n))
	pktBuf := ps[:n]
	pkt := make([]byte, n) // handleTunPacket returns (and zeroes) the pooled slice
	copy(pkt, pktBuf)
	r.handleTunPacket(vfW, pktBuf)

	entered := len(vfRouted) + len(vfHelloDst)
	// C14: a packet that passes every check while no keys exist for its destination starts a key setup
	if n >= 44 && pkt[0]>>4 == 6 && traffic && vf.Count("icmp.error") == 0 && vf.Count("icmp.toobig") == 0 {
		var s16, d16 [16]byte
		copy(s16[:], pkt[8:24])
		copy(d16[:], pkt[24:40])
		ps, pd := netip.AddrFrom16(s16), netip.AddrFrom16(d16)
		if ps == own && d16[0] == 0xfd && pd != config.DefaultAPIAddress && !(pd == peer && encSet) {
			vf.Assert(len(vfHelloDst) == 1 && vfHelloDst[0] == pd && len(vfRouted) == 0, "admitted-packet-without-keys-starts-no-setup")
			vf.Reach("setup-started")
		}
	}
	if entered > 0 {
		vf.Assert(n >= 44 && pkt[0]>>4 == 6, "non-ipv6-or-short-packet-entered-mesh")
		var is, idst [16]byte
		copy(is[:], pkt[8:24])
		copy(idst[:], pkt[24:40])
		psrc, pdst := netip.AddrFrom16(is), netip.AddrFrom16(idst)
		vf.Assert(psrc == own, "foreign-source-entered-mesh")
		vf.Assert(idst[0] == 0xfd, "non-mycoria-destination-entered-mesh")
		vf.Assert(!(idst[0] == 0xff && idst[1]&0xf0 == 0), "multicast-entered-mesh")
		vf.Assert(pdst != config.DefaultAPIAddress, "api-address-entered-mesh")
		vf.Assert(traffic, "entered-mesh-while-traffic-handling-off")
		vf.Assert(vfIR(cfg.Router.Isolate, pdst == friend), "isolated-router-sent-to-non-friend")
		if len(vfRouted) == 1 {
			vf.Assert(vfRouted[0].DstIP() == pdst && vfRouted[0].SrcIP() == own && vfRouted[0].MessageType() == frame.NetworkTraffic, "traffic-frame-addresses")
			vf.Assert(len(vf.Seals) == 1, "traffic-frame-not-sealed")
			vf.Reach("traffic-sent")
		} else {
			vf.Assert(vfHelloDst[0] == pdst, "hello-to-other-destination")
			vf.Reach("hello-sent")
		}
	} else {
		vf.Reach("dropped")
	}
}
