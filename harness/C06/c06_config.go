//go:build verif

package config

import (
	"net/netip"

	vf "github.com/mycoria/mycoria/zzvf"
)

func vfAddr6() netip.Addr {
	var a [16]byte
	copy(a[:], vf.Bytes(16))
	return netip.AddrFrom16(a)
}


// VfC06Policy: for every service URL of the grid and every access rule
// (public / friends / for-list over symbolic addresses), the compiled policy
// admits a packet (symbolic protocol 0..255, port 0..65535, source) iff the
// specification table says so.
func VfC06Policy() {
	// (function-local tables: package-level variables would drag the package initialiser, i.e. regexp compilation, into every path)
	vfSchemes := []string{"tcp", "udp", "http", "https", "icmp6", "ping6", "ftp", ""}
	vfHosts := []string{"svc.myco", "[fd00::1]", ""}
	vfPorts := []string{"", ":0", ":1", ":80", ":443", ":8080", ":65535", ":65536", ":abc"}
	vfPortNum := []int{-1, 0, 1, 80, 443, 8080, 65535, -2, -2} // -1 none, -2 invalid
	si, hi, pi := vf.Choose(len(vfSchemes)), vf.Choose(len(vfHosts)), vf.Choose(len(vfPorts))
	scheme := vfSchemes[si]
	u := scheme + "://" + vfHosts[hi] + vfPorts[pi]
	if scheme == "" {
		u = vfHosts[hi] + vfPorts[pi]
	}
	c := &Config{inPolicy: make(map[string]map[netip.Addr]struct{})}
	nf := vf.Choose(3)
	for i := 0; i < nf; i++ {
		c.Friends = append(c.Friends, Friend{Name: "f", IP: vfAddr6()})
	}
	public, friends := vf.Bool(), vf.Bool()
	nfor := vf.Choose(3)
	var forIPs []netip.Addr
	for i := 0; i < nfor; i++ {
		forIPs = append(forIPs, vfAddr6())
	}

	// ---- specification ----
	var protos []uint8
	port := -1
	switch scheme {
	case "tcp":
		protos = []uint8{6}
	case "udp":
		protos = []uint8{17}
	case "http":
		protos, port = []uint8{6, 17}, 80
	case "https":
		protos, port = []uint8{6, 17}, 443
	case "icmp6", "ping6":
		protos, port = []uint8{58}, 0
	}
	if len(protos) > 0 && port != 0 && vfPortNum[pi] != -1 {
		port = vfPortNum[pi]
	}
	specErr := len(protos) == 0 || port < 0 || (public && (friends || nfor > 0)) ||
		vfPorts[pi] == ":abc" // not a URL

	keys, _, err := getInfoFromURL(u)
	if err == nil {
		for _, k := range keys {
			if err == nil {
				err = c.addInPolicyKey(k, public, friends, forIPs)
			}
		}
	}
	if err != nil {
		if vfSchemes[si] != "" || hi != 0 { // "svc.myco:80" without scheme parses oddly in net/url; only judge well-formed URLs
			vf.Assert(specErr, "valid-service-refused")
		}
		vf.Reach("config-error")
		return
	}
	vf.Assert(!specErr, "invalid-service-accepted")

	proto, dport, src := vf.U8(), vf.U16(), vfAddr6()
	allowed := c.CheckInboundTrafficPolicy(proto, dport, src)

	protoOK := false
	for _, p := range protos {
		if p == proto {
			protoOK = true
		}
	}
	srcOK := public
	if !public {
		if friends {
			for _, f := range c.Friends {
				if f.IP == src {
					srcOK = true
				}
			}
		}
		for _, ip := range forIPs {
			if ip == src {
				srcOK = true
			}
		}
	}
	want := protoOK && int(dport) == port && srcOK
	vf.Assert(vfI6(allowed, want), "packet-admitted-against-policy")
	vf.Assert(vfI6(want, allowed), "packet-refused-against-policy")
	if allowed {
		vf.Reach("admitted")
	} else {
		vf.Reach("denied")
	}
}

func vfI6(a, b bool) bool { return !a || b }

// VfC06DefaultDeny: with no service configured nothing is admitted.
func VfC06DefaultDeny() {
	c := &Config{inPolicy: make(map[string]map[netip.Addr]struct{})}
	vf.Assert(!c.CheckInboundTrafficPolicy(vf.U8(), vf.U16(), vfAddr6()), "admitted-without-service")
	vf.Reach("denied")
}
