//go:build verif

package frame

import (
	"fmt"
	"net/netip"
	"testing"
)

// TestVfC17RecycleDriver reproduces recycle findings natively with the real sync.Pool
// (which hands a released frame struct back to the next Get on the same goroutine).
func TestVfC17RecycleDriver(t *testing.T) {
	b := NewFrameBuilder()
	b.SetFrameMargins(12, 16)
	src, dst := netip.MustParseAddr("fd00::1"), netip.MustParseAddr("fd00::2")
	for round := 0; round < 50; round++ {
		f, err := b.NewFrameV1(src, dst, RouterPing, nil, []byte("hello"), nil)
		if err != nil {
			t.Fatal(err)
		}
		wire := append([]byte(nil), f.data...)
		f.SetRecvLink(&vfLink{id: 99})
		f.ReturnToPool()
		ps := b.GetPooledSlice(len(wire) + 28)
		copy(ps[12:], wire)
		g, err := b.ParseFrameV1(ps[12:12+len(wire)], ps, 12)
		if err != nil {
			t.Fatal(err)
		}
		if g.RecvLink() != nil {
			fmt.Printf("VF-DRIVER: reproduced parsed-frame-has-stale-link (round %d: a freshly parsed frame reports the released frame's link)\n", round)
			return
		}
		g.ReturnToPool()
	}
	fmt.Println("VF-DRIVER: not-reproduced")
}
