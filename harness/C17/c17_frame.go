//go:build verif

package frame

import (
	"net/netip"
	"sync"

	vf "github.com/mycoria/mycoria/zzvf"
)

// VfC17Clone: Clone never panics, copies every byte and field, shares no
// buffer, and later writes to either frame do not show in the other.
func VfC17Clone() {
	b := NewFrameBuilder()
	f := vfBuilt(b)
	if vf.Param("margins") == 1 {
		// the builder's margins may change between building a frame and cloning it
		o2, h2 := vf.Int(), vf.Int()
		vf.Assume(o2 >= 0 && o2 <= 100 && h2 >= 0 && h2 <= 100)
		b.SetFrameMargins(o2, h2)
	} else if vf.Choose(2) == 1 {
		b.SetFrameMargins(2, 0) // as for frames read on a link without link encryption
	}
	f.SetRecvLink(&vfLink{id: 7})
	c := f.Clone().(*FrameV1)
	vf.Assert(c.recvLink == f.recvLink, "clone-recv-link")
	// the clone offers the same room around the frame as the original (the link writer needs its margins)
	mx, my := vf.Int(), vf.Int()
	vf.Assume(mx >= 0 && mx <= 100 && my >= 0 && my <= 100)
	fd, e1 := f.FrameDataWithMargins(mx, my)
	cd, e2 := c.FrameDataWithMargins(mx, my)
	vf.Assert((e1 == nil) == (e2 == nil), "clone-has-different-room")
	vf.Assert(len(fd) == len(cd), "clone-margin-data-length")
	vf.Assert(len(c.data) == len(f.data), "clone-length")
	vf.Assert(c.messageIndex == f.messageIndex && c.authIndex == f.authIndex && c.appendixIndex == f.appendixIndex, "clone-indices")
	vf.Assert(c.src == f.src && c.dst == f.dst, "clone-addresses")
	vf.Assert(c.psDataOffset == f.psDataOffset, "clone-offset")
	vf.Assert(!vf.SameObject(c.pooledSlice, f.pooledSlice), "clone-shares-buffer")
	vf.Assert(vf.SameObject(c.pooledSlice, c.data), "clone-data-not-in-own-slice")
	q := vf.Int()
	vf.Assume(q >= 0 && q < len(f.data))
	vf.Assert(c.data[q] == f.data[q], "clone-bytes")
	old := f.data[q]
	// write through the clone at an arbitrary position; original unchanged
	w := vf.Int()
	vf.Assume(w >= 0 && w < len(c.data))
	c.data[w] = vf.U8()
	vf.Assert(f.data[q] == old, "write-to-clone-changed-original")
	// grow / replace the clone's appendix; original unchanged, clone's protected part unchanged
	nx := vf.Int()
	vf.Assume(nx >= 0 && nx <= frameV1AppendixLimit)
	cq := c.data[q]
	err := c.SetAppendixData(vf.Bytes(nx))
	vf.Assert(f.data[q] == old, "set-appendix-on-clone-changed-original")
	if q < c.appendixIndex {
		vf.Assert(c.data[q] == cq, "set-appendix-changed-protected-bytes")
	}
	if err == nil {
		vf.Assert(len(c.data) == c.appendixIndex+nx, "set-appendix-length")
		vf.Reach("appendix-set")
	} else {
		vf.Reach("appendix-refused")
	}
	vf.Reach("done")
}

// VfC17Release: releasing one frame never changes another live frame, a
// single release never panics and a second one always does.
func VfC17Release() {
	b := NewFrameBuilder()
	f := vfBuilt(b)
	c := f.Clone().(*FrameV1)
	q := vf.Int()
	vf.Assume(q >= 0 && q < len(c.data))
	old := c.data[q]
	f.ReturnToPool()
	vf.Assert(c.data[q] == old, "release-changed-other-frame")
	vf.Assert(f.data == nil && f.pooledSlice == nil && !f.src.IsValid() && !f.dst.IsValid(), "release-left-state")
	vf.Assert(f.recvLink == nil, "release-left-link")
	vf.Reach("done")
}


// ---- adversarial pool: Get hands out a fresh object or ANY object put back earlier, as it was left ----

var vfPools = map[*sync.Pool][]any{}

func vfPoolPut(p *sync.Pool, x any) { vfPools[p] = append(vfPools[p], x) }

func vfPoolGet(p *sync.Pool) any {
	l := vfPools[p]
	k := vf.Choose(len(l) + 1)
	if k == len(l) {
		return p.New()
	}
	x := l[k]
	vfPools[p] = append(l[:k:k], l[k+1:]...)
	return x
}

type vfSlot struct {
	f    *FrameV1
	want []byte // expected frame bytes
	src  [16]byte
	dst  [16]byte
	link LinkAccessor
}

func vfSmallArgs() (src, dst [16]byte, msg, apx []byte) {
	copy(src[:], vf.Bytes(16))
	copy(dst[:], vf.Bytes(16))
	nm, na := vf.Int(), vf.Int()
	vf.Assume(nm >= 0 && nm <= 40 && na >= 0 && na <= 40) // nm == 0: the builder refuses an empty message
	return src, dst, vf.Bytes(nm), vf.Bytes(na)
}

func (s *vfSlot) record() {
	s.want = make([]byte, len(s.f.data))
	copy(s.want, s.f.data)
	s.src, s.dst = s.f.SrcIP().As16(), s.f.DstIP().As16()
	s.link = s.f.recvLink
}

// VfC17Recycle: K operations (new, parse, clone, reply, release) on two frame
// slots of one builder whose pools hand back released objects in any order.
// After every operation each live frame still has exactly the bytes,
// addresses and link it was given, and no two live frames share a buffer.
func VfC17Recycle() {
	K := vf.Param("K")
	b := NewFrameBuilder()
	b.SetFrameMargins(12, 16)
	var slots [2]vfSlot
	for k := 0; k < K; k++ {
		i := vf.Choose(2)
		s, o := &slots[i], &slots[1-i]
		switch vf.Choose(6) {
		case 5: // scratch buffer (as the tun reader does): take a buffer, fill it, hand back a shortened view
			n := vf.Int()
			vf.Assume(n >= 1 && n <= 700)
			ps := b.GetPooledSlice(n)
			z := vf.Int()
			vf.Assume(z >= 0 && z < cap(ps))
			vf.Assert(ps[:cap(ps)][z] == 0, "recycled-buffer-not-zeroed")
			vf.Havoc(ps[:cap(ps)])
			k2 := vf.Int()
			vf.Assume(k2 >= 0 && k2 <= len(ps))
			b.ReturnPooledSlice(ps[:k2])
		case 0: // new
			vf.Assume(s.f == nil)
			src, dst, msg, apx := vfSmallArgs()
			f, err := b.NewFrameV1(netip.AddrFrom16(src), netip.AddrFrom16(dst), MessageType(vf.U8()), nil, msg, apx)
			if err != nil {
				vf.Reach("new-refused")
				continue // a refused build must leave the pools in a sane state
			}
			vf.Assert(f.recvLink == nil, "new-frame-has-stale-link")
			// head and tail room of a new frame hold nothing of an earlier user of the buffer
			z := vf.Int()
			vf.Assume(z >= 0 && z < cap(f.pooledSlice) && (z < f.psDataOffset || z >= f.psDataOffset+len(f.data)))
			vf.Assert(f.pooledSlice[:cap(f.pooledSlice)][z] == 0, "new-frame-margin-holds-stale-bytes")
			vf.Assert(f.TTL() == 32 && f.FlowControl() == 0 && f.RecvRate() == 0 && f.SequenceNum() == 0 && f.SequenceAck() == 0, "new-frame-header-not-initialised")
			s.f = f
			s.record()
			vf.Assert(s.src == src && s.dst == dst, "new-frame-addresses")
		case 1: // parse wire bytes into a pooled slice (as the link reader does)
			vf.Assume(s.f == nil)
			n := vf.Int()
			vf.Assume(n >= 68 && n <= 120)
			wire := vf.Bytes(n)
			vf.Assume(wire[0] == 1 && wire[48] == 0)
			ps := b.GetPooledSlice(n + 12 + 16)
			copy(ps[12:], wire)
			fr, err := b.ParseFrame(ps[12:12+n], ps, 12)
			if err != nil {
				b.ReturnPooledSlice(ps)
				continue
			}
			f := fr.(*FrameV1)
			vf.Assert(f.recvLink == nil, "parsed-frame-has-stale-link")
			var ws, wd [16]byte
			copy(ws[:], wire[16:32])
			copy(wd[:], wire[32:48])
			f.SetRecvLink(&vfLink{id: k + 1})
			s.f = f
			s.record()
			vf.Assert(s.src == ws && s.dst == wd, "parsed-frame-addresses")
			q := vf.Int()
			vf.Assume(q >= 0 && q < n)
			vf.Assert(f.data[q] == wire[q], "parsed-frame-bytes")
		case 2: // clone the other slot's frame into this slot
			vf.Assume(s.f == nil && o.f != nil)
			s.f = o.f.Clone().(*FrameV1)
			s.record()
			vf.Assert(len(s.want) == len(o.want) && s.src == o.src && s.dst == o.dst && s.link == o.link, "clone-fields")
		case 3: // turn into a reply
			vf.Assume(s.f != nil)
			_, _, msg, apx := vfSmallArgs()
			osrc, odst := s.src, s.dst
			oldBuf := s.f.pooledSlice
			if len(msg) == 0 || s.f.Reply(nil, msg, apx) != nil {
				vf.Stop()
			}
			if vf.SameObject(oldBuf, s.f.pooledSlice) {
				vf.Reach("reply-in-place")
			} else {
				vf.Reach("reply-new-buffer")
			}
			s.record()
			vf.Assert(s.src == odst && s.dst == osrc, "reply-addresses")
			vf.Assert(s.f.recvLink == nil, "reply-keeps-link")
			vf.Assert(s.f.TTL() == 32 && s.f.FlowControl() == 0 && s.f.RecvRate() == 0 && s.f.SequenceNum() == 0 && s.f.SequenceAck() == 0, "reply-keeps-header-fields-of-request")
			m := vf.Int()
			vf.Assume(m >= 0 && m < len(msg))
			vf.Assert(s.f.MessageData()[m] == msg[m], "reply-message")
		default: // release
			vf.Assume(s.f != nil)
			s.f.ReturnToPool()
			s.f = nil
		}
		// every live frame is exactly what it was
		for j := range slots {
			t := &slots[j]
			if t.f == nil {
				continue
			}
			vf.Assert(len(t.f.data) == len(t.want), "live-frame-length-changed")
			q := vf.Int()
			vf.Assume(q >= 0 && q < len(t.want))
			vf.Assert(t.f.data[q] == t.want[q], "live-frame-bytes-changed")
			vf.Assert(t.f.SrcIP().As16() == t.src && t.f.DstIP().As16() == t.dst, "live-frame-addresses-changed")
			vf.Assert(t.f.recvLink == t.link, "live-frame-link-changed")
		}
		if slots[0].f != nil && slots[1].f != nil {
			vf.Assert(!vf.SameObject(slots[0].f.pooledSlice, slots[1].f.pooledSlice), "live-frames-share-buffer")
			vf.Assert(slots[0].f != slots[1].f, "live-frames-share-struct")
		}
	}
	vf.Reach("done")
}
