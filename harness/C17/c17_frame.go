//go:build verif

package frame

import (
	"net/netip"

	vf "github.com/mycoria/mycoria/zzvf"
)

func vfAddr() netip.Addr {
	var a [16]byte
	copy(a[:], vf.Bytes(16))
	return netip.AddrFrom16(a)
}

type vfLink struct{ id int }

func (l *vfLink) Peer() netip.Addr                 { return netip.Addr{} }
func (l *vfLink) SwitchLabel() uint16               { return uint16(l.id) }
func (l *vfLink) vfMarker()                         {}

// vfBuilt builds a frame of arbitrary (symbolic) shape on a builder with
// arbitrary margins. All five pooled-slice tiers are reachable.
func vfBuilt(b *Builder) *FrameV1 {
	off, ovh := vf.Int(), vf.Int()
	vf.Assume(off >= 0 && off <= 100 && ovh >= 0 && ovh <= 100)
	b.SetFrameMargins(off, ovh)
	mt := MessageType(vf.U8())
	nsw, nmsg, napx := vf.Int(), vf.Int(), vf.Int()
	vf.Assume(nsw >= 0 && nsw <= 255)
	vf.Assume(nmsg >= 1 && nmsg <= frameV1MessageLimit)
	vf.Assume(napx >= 0 && napx <= frameV1AppendixLimit)
	f, err := b.NewFrameV1(vfAddr(), vfAddr(), mt, vf.Bytes(nsw), vf.Bytes(nmsg), vf.Bytes(napx))
	vf.Assert(err == nil, "build-failed")
	if err != nil {
		vf.Stop()
	}
	return f
}

// VfC17Clone: Clone never panics, copies every byte and field, shares no
// buffer, and later writes to either frame do not show in the other.
func VfC17Clone() {
	b := NewFrameBuilder()
	f := vfBuilt(b)
	c := f.Clone().(*FrameV1)
	vf.Assert(len(c.data) == len(f.data), "clone-length")
	vf.Assert(c.messageIndex == f.messageIndex && c.authIndex == f.authIndex && c.appendixIndex == f.appendixIndex, "clone-indices")
	vf.Assert(c.src == f.src && c.dst == f.dst, "clone-addresses")
	vf.Assert(c.psDataOffset == f.psDataOffset, "clone-offset")
	vf.Assert(!vf.SameObject(c.pooledSlice, f.pooledSlice), "clone-shares-buffer")
	vf.Assert(vf.SameObject(c.pooledSlice, c.data), "clone-data-not-in-own-slice")
	q := vf.Int()
	vf.Assume(q >= 0 && q < len(f.data))
	vf.Assert(c.data[q] == f.data[q], "clone-bytes")
	old := f.data[q]
	// write through the clone at an arbitrary position; original unchanged
	w := vf.Int()
	vf.Assume(w >= 0 && w < len(c.data))
	c.data[w] = vf.U8()
	vf.Assert(f.data[q] == old, "write-to-clone-changed-original")
	// grow / replace the clone's appendix; original unchanged, clone's protected part unchanged
	nx := vf.Int()
	vf.Assume(nx >= 0 && nx <= frameV1AppendixLimit)
	cq := c.data[q]
	err := c.SetAppendixData(vf.Bytes(nx))
	vf.Assert(f.data[q] == old, "set-appendix-on-clone-changed-original")
	if q < c.appendixIndex {
		vf.Assert(c.data[q] == cq, "set-appendix-changed-protected-bytes")
	}
	if err == nil {
		vf.Assert(len(c.data) == c.appendixIndex+nx, "set-appendix-length")
		vf.Reach("appendix-set")
	} else {
		vf.Reach("appendix-refused")
	}
	vf.Reach("done")
}

// VfC17Release: releasing one frame never changes another live frame, a
// single release never panics and a second one always does.
func VfC17Release() {
	b := NewFrameBuilder()
	f := vfBuilt(b)
	c := f.Clone().(*FrameV1)
	q := vf.Int()
	vf.Assume(q >= 0 && q < len(c.data))
	old := c.data[q]
	f.ReturnToPool()
	vf.Assert(c.data[q] == old, "release-changed-other-frame")
	vf.Assert(f.data == nil && f.pooledSlice == nil && !f.src.IsValid() && !f.dst.IsValid(), "release-left-state")
	vf.Assert(f.recvLink == nil, "release-left-link")
	vf.Reach("done")
}
