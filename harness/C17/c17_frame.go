//go:build verif

package frame

import (
	vf "github.com/mycoria/mycoria/zzvf"
)

// VfC17Clone: Clone never panics, copies every byte and field, shares no
// buffer, and later writes to either frame do not show in the other.
func VfC17Clone() {
	b := NewFrameBuilder()
	f := vfBuilt(b)
	c := f.Clone().(*FrameV1)
	vf.Assert(len(c.data) == len(f.data), "clone-length")
	vf.Assert(c.messageIndex == f.messageIndex && c.authIndex == f.authIndex && c.appendixIndex == f.appendixIndex, "clone-indices")
	vf.Assert(c.src == f.src && c.dst == f.dst, "clone-addresses")
	vf.Assert(c.psDataOffset == f.psDataOffset, "clone-offset")
	vf.Assert(!vf.SameObject(c.pooledSlice, f.pooledSlice), "clone-shares-buffer")
	vf.Assert(vf.SameObject(c.pooledSlice, c.data), "clone-data-not-in-own-slice")
	q := vf.Int()
	vf.Assume(q >= 0 && q < len(f.data))
	vf.Assert(c.data[q] == f.data[q], "clone-bytes")
	old := f.data[q]
	// write through the clone at an arbitrary position; original unchanged
	w := vf.Int()
	vf.Assume(w >= 0 && w < len(c.data))
	c.data[w] = vf.U8()
	vf.Assert(f.data[q] == old, "write-to-clone-changed-original")
	// grow / replace the clone's appendix; original unchanged, clone's protected part unchanged
	nx := vf.Int()
	vf.Assume(nx >= 0 && nx <= frameV1AppendixLimit)
	cq := c.data[q]
	err := c.SetAppendixData(vf.Bytes(nx))
	vf.Assert(f.data[q] == old, "set-appendix-on-clone-changed-original")
	if q < c.appendixIndex {
		vf.Assert(c.data[q] == cq, "set-appendix-changed-protected-bytes")
	}
	if err == nil {
		vf.Assert(len(c.data) == c.appendixIndex+nx, "set-appendix-length")
		vf.Reach("appendix-set")
	} else {
		vf.Reach("appendix-refused")
	}
	vf.Reach("done")
}

// VfC17Release: releasing one frame never changes another live frame, a
// single release never panics and a second one always does.
func VfC17Release() {
	b := NewFrameBuilder()
	f := vfBuilt(b)
	c := f.Clone().(*FrameV1)
	q := vf.Int()
	vf.Assume(q >= 0 && q < len(c.data))
	old := c.data[q]
	f.ReturnToPool()
	vf.Assert(c.data[q] == old, "release-changed-other-frame")
	vf.Assert(f.data == nil && f.pooledSlice == nil && !f.src.IsValid() && !f.dst.IsValid(), "release-left-state")
	vf.Assert(f.recvLink == nil, "release-left-link")
	vf.Reach("done")
}
