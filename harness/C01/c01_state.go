//go:build verif

package state

import (
	"crypto/ed25519"
	"net/netip"

	"github.com/mycoria/crop"
	"github.com/mycoria/mycoria/config"
	"github.com/mycoria/mycoria/m"
	"github.com/mycoria/mycoria/storage"
	vf "github.com/mycoria/mycoria/zzvf"
)

// VfC01StoredRecord: identities "loaded from storage" - the router records of
// the state file, as they come out of the storage when a session for an
// address is first needed. The record is ARBITRARY (a file edited, damaged or
// written by another version): no address part, an address part naming a
// different IP, any hash / key-type name, any key. State.GetSession binds a
// session (and with it a verification key) to the address only if the record
// carries an identity for exactly that address whose key hashes to it;
// otherwise there is no session, and nothing panics - neither here nor in what
// a caller does with the session next (Signing()).
func VfC01StoredRecord() {
	var a [16]byte
	copy(a[:], vf.Bytes(16))
	ip := netip.AddrFrom16(a)
	own := &m.Address{PublicAddress: m.PublicAddress{IP: netip.MustParseAddr("fd1f::1")}, PrivateKey: ed25519.PrivateKey(make([]byte, 64))}
	cfg := &config.Config{}
	stg := storage.NewMemStorage()
	rec := &storage.StoredRouter{}
	recIP := ip
	if vf.Bool() {
		var b [16]byte
		copy(b[:], vf.Bytes(16))
		recIP = netip.AddrFrom16(b) // the record names some address (possibly another one)
	}
	switch vf.Choose(3) {
	case 0:
		// "address": null
	case 1:
		nk := vf.Int()
		vf.Assume(nk >= 0 && nk <= 40)
		rec.Address = &m.PublicAddress{IP: recIP, Hash: []crop.Hash{crop.BLAKE3, "bogus", ""}[vf.Choose(3)],
			Type: []crop.KeyPairType{crop.KeyPairTypeEd25519, "Foo", ""}[vf.Choose(3)], PublicKey: ed25519.PublicKey(vf.Bytes(nk)), Easing: vf.U64()}
	default:
		rec.Address = &m.PublicAddress{IP: recIP, Hash: crop.BLAKE3, Type: crop.KeyPairTypeEd25519, PublicKey: ed25519.PublicKey(vf.Bytes(32))}
	}
	stg.VfPut(ip, rec)
	st := New(&VfInstance{Id: own, Cfg: cfg}, stg)

	s := st.GetSession(ip)
	if s == nil {
		vf.Reach("no-session")
		return
	}
	vf.Assert(rec.Address != nil, "session-from-a-record-without-identity")
	if rec.Address == nil {
		return
	}
	vf.Assert(rec.Address.IP == ip && s.Address().IP == ip, "session-bound-to-an-identity-of-another-address")
	vf.Assert(rec.Address.Type == crop.KeyPairTypeEd25519 && len(rec.Address.PublicKey) == ed25519.PublicKeySize, "session-from-a-record-with-an-unusable-key")
	ip16 := ip.As16()
	okd := false
	for _, d := range m.VfDigests() {
		same := len(d) >= 16
		for i := 0; same && i < 16; i++ {
			if d[i] != ip16[i] {
				same = false
			}
		}
		if same {
			okd = true
		}
	}
	vf.Assert(okd, "session-from-a-stored-identity-whose-key-does-not-hash-to-the-address")
	_ = s.Signing()
	vf.Reach("session")
}
