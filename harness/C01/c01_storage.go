//go:build verif

package m

import (
	"encoding/hex"
	"errors"
	"net/netip"

	"github.com/mycoria/crop"
	vf "github.com/mycoria/mycoria/zzvf"
)

// Text codecs (hex, netip text form) are modelled as ideal: encoding returns a
// fresh token, decoding a token returns what was encoded, decoding any other
// text returns an error or arbitrary data (the same on every call).
type vfTxtRec struct {
	s   string
	b   []byte
	ip  netip.Addr
	bad bool
}

var (
	vfTxts     []*vfTxtRec
	vfTxtNames = []string{"tok0", "tok1", "tok2", "tok3", "tok4", "tok5", "tok6", "tok7"}
)

func vfTxtOf(s string) *vfTxtRec {
	for _, t := range vfTxts {
		if t.s == s {
			return t
		}
	}
	return nil
}

func vfHexEncode(b []byte) string {
	cp := make([]byte, len(b))
	copy(cp, b)
	t := &vfTxtRec{s: vfTxtNames[len(vfTxts)], b: cp}
	vfTxts = append(vfTxts, t)
	return t.s
}

func vfHexDecode(s string) ([]byte, error) {
	t := vfTxtOf(s)
	if t == nil {
		t = &vfTxtRec{s: s, bad: vf.Bool()}
		n := vf.Int()
		vf.Assume(n >= 0 && n <= 80)
		t.b = vf.Bytes(n)
		vfTxts = append(vfTxts, t)
	}
	if t.bad {
		return nil, hex.ErrLength
	}
	cp := make([]byte, len(t.b))
	copy(cp, t.b)
	return cp, nil
}

func vfAddrString(ip netip.Addr) string {
	t := &vfTxtRec{s: vfTxtNames[len(vfTxts)], ip: ip}
	vfTxts = append(vfTxts, t)
	return t.s
}

func vfParseAddr(s string) (netip.Addr, error) {
	t := vfTxtOf(s)
	if t == nil {
		t = &vfTxtRec{s: s, bad: vf.Bool(), ip: vfIP()}
		vfTxts = append(vfTxts, t)
	}
	if t.bad {
		return netip.Addr{}, errors.New("unable to parse IP")
	}
	return t.ip, nil
}

// VfC01Load: AddressFromStorage on an arbitrary stored identity (texts decode
// to anything): an identity results exactly when the texts decode, the keys
// have the Ed25519 sizes, the hash is known, the address is the fd00::/8
// digest prefix of the specified encoding, and the private key fits the
// public key (its public half equals it and a fresh signature verifies); the
// identity returned carries exactly the decoded values.
func VfC01Load() {
	nt := vf.Int()
	vf.Assume(nt >= 0 && nt <= 20)
	typ := vf.Bytes(nt)
	s := AddressStorage{IP: "ip", Hash: vfHashNames[vf.Choose(len(vfHashNames))], Type: crop.KeyPairType(string(typ)),
		PublicKey: "pub", PrivateKey: "priv", Easing: vf.U64()}
	if vf.Choose(2) == 0 {
		s.Easing = 0
	}
	a, err := AddressFromStorage(s)

	ipr, pubr, privr := vfTxtOf("ip"), vfTxtOf("pub"), vfTxtOf("priv")
	decoded := ipr != nil && pubr != nil && privr != nil && !ipr.bad && !pubr.bad && !privr.bad
	shape := false
	var ip16 [16]byte
	if decoded {
		ip16 = ipr.ip.As16()
		shape = len(pubr.b) == 32 && len(privr.b) == 64 && vfHashSize(s.Hash) != 0 &&
			ipr.ip.IsValid() && ipr.ip.Is6() && ip16[0] == 0xfd && nt > 0
	}
	match, fit := false, false
	if shape && len(vfDigests) == 1 {
		match, fit = true, true
		for i := 0; i < 16; i++ {
			if vfDigests[0].digest[i] != ip16[i] {
				match = false
			}
		}
		for i := 0; i < 32; i++ {
			if privr.b[32+i] != pubr.b[i] {
				fit = false
			}
		}
	}
	if err != nil {
		vf.Assert(a == nil, "error-with-identity")
		if shape && match && fit {
			vf.Assert(len(vf.Verifies) == 1 && !vf.Verifies[0].OK, "valid-stored-identity-rejected")
		}
		vf.Reach("reject")
		return
	}
	vf.Assert(a != nil, "nil-identity-without-error")
	vf.Assert(decoded, "accepted-undecodable-text")
	vf.Assert(shape, "accepted-malformed-stored-identity")
	vf.Assert(len(vfDigests) == 1, "accepted-without-one-digest")
	vf.Assert(match, "stored-address-is-not-digest-prefix")
	vf.Assert(fit, "private-key-does-not-belong-to-public-key")
	in := vfDigests[0].in
	want := 4 + nt + 32
	if s.Easing > 0 {
		want += 8
	}
	vf.Assert(len(in) == want && in[0] == 1 && int(in[1]) == nt && in[2] == 0 && in[3] == 32, "digest-input-header")
	i := vf.Int()
	vf.Assume(i >= 0 && i < nt)
	vf.Assert(in[4+i] == typ[i], "digest-input-type")
	j := vf.Int()
	vf.Assume(j >= 0 && j < 32)
	vf.Assert(in[4+nt+j] == pubr.b[j], "digest-input-key")
	if s.Easing > 0 {
		k := vf.Int()
		vf.Assume(k >= 0 && k < 8)
		vf.Assert(in[4+nt+32+k] == byte(s.Easing>>(56-8*uint(k))), "digest-input-easing")
	}
	// proof of possession: a signature made with the stored private key verified under the stored public key
	vf.Assert(len(vf.Signs) == 1 && len(vf.Verifies) == 1 && vf.Verifies[0].OK, "private-key-not-proved")
	sg, vr := vf.Signs[0], vf.Verifies[0]
	vf.Assert(sg.KeyID == int(privr.b[63]) && vr.KeyID == int(pubr.b[31]) && len(sg.Msg) == len(vr.Msg) && len(vr.Sig) == 64, "possession-proof-keys")
	k := vf.Int()
	vf.Assume(k >= 0 && k < 64)
	vf.Assert(sg.Sig[k] == vr.Sig[k], "verified-signature-is-not-the-fresh-one")
	// the identity is exactly what was stored
	vf.Assert(a.IP == ipr.ip && a.Hash == s.Hash && a.Type == s.Type && a.Easing == s.Easing, "loaded-fields-differ")
	vf.Assert(len(a.PublicKey) == 32 && len(a.PrivateKey) == 64 && a.PublicKey[j] == pubr.b[j] && a.PrivateKey[k] == privr.b[k], "loaded-keys-differ")
	vf.Reach("accept")
}

// VfC01Reload: every identity the generator returns reloads from its stored
// form (Store, then AddressFromStorage) to the same identity.
func VfC01Reload() {
	acc := []netip.Prefix{vfPrefix()}
	vf.Assume(acc[0].Bits() >= 8 && BaseNetPrefix.Contains(acc[0].Addr()))
	a, _, err := tryToGenerateAddress(acc, nil, uint64(vf.Choose(vf.Param("E")+1)))
	if err != nil || a == nil {
		vf.Reach("no-address")
		return
	}
	st := a.Store()
	vf.Assert(st.Hash == a.Hash && st.Type == a.Type && st.Easing == a.Easing, "stored-fields-differ")
	b, err := AddressFromStorage(st)
	if len(vf.Verifies) == 1 && !vf.Verifies[0].OK {
		return // signature scheme modelled as arbitrary: a correct scheme verifies its own signatures
	}
	vf.Assert(err == nil && b != nil, "generated-identity-does-not-reload")
	vf.Assert(b.IP == a.IP && b.Hash == a.Hash && b.Type == a.Type && b.Easing == a.Easing, "reloaded-fields-differ")
	vf.Assert(len(b.PublicKey) == 32 && len(b.PrivateKey) == 64, "reloaded-key-sizes")
	j := vf.Int()
	vf.Assume(j >= 0 && j < 32)
	k := vf.Int()
	vf.Assume(k >= 0 && k < 64)
	vf.Assert(b.PublicKey[j] == a.PublicKey[j] && b.PrivateKey[k] == a.PrivateKey[k], "reloaded-keys-differ")
	vf.Assert(b.KeyPair != nil, "reloaded-without-key-pair")
	vf.Reach("reloaded")
}
