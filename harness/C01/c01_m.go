//go:build verif

package m

import (
	"crypto/ed25519"
	"net/netip"

	"github.com/mycoria/crop"
	vf "github.com/mycoria/mycoria/zzvf"
)

var vfHashNames = []crop.Hash{
	crop.SHA2_224, crop.SHA2_256, crop.SHA2_384, crop.SHA2_512, crop.SHA2_512_224, crop.SHA2_512_256,
	crop.SHA3_224, crop.SHA3_256, crop.SHA3_384, crop.SHA3_512,
	crop.BLAKE2s_256, crop.BLAKE2b_256, crop.BLAKE2b_384, crop.BLAKE2b_512, crop.BLAKE3,
	"", "bogus", "blake3",
}

func vfIP() netip.Addr {
	switch vf.Choose(3) {
	case 0:
		var a [16]byte
		copy(a[:], vf.Bytes(16))
		return netip.AddrFrom16(a)
	case 1:
		var a [4]byte
		copy(a[:], vf.Bytes(4))
		return netip.AddrFrom4(a)
	}
	return netip.Addr{}
}

func vfI(a, b bool) bool { return !a || b }

// VfC01Verify: VerifyAddress on an arbitrary identity (any address kind, any
// of the 15 known hash names plus unknown ones, key-type string and key of
// any length up to the largest an untrusted peer can deliver, any easing):
// never panics, and returns nil exactly when the address is an IPv6 in
// fd00::/8, all fields are present, the hash is known, and the 16 address
// bytes equal the first 16 digest bytes of exactly the specified encoding.
func VfC01Verify() {
	L := vf.Param("L")
	nt, nk := vf.Int(), vf.Int()
	vf.Assume(nt >= 0 && nt <= L && nk >= 0 && nk <= L)
	typ := vf.Bytes(nt)
	key := vf.Bytes(nk)
	addr := &PublicAddress{
		IP:        vfIP(),
		Hash:      vfHashNames[vf.Choose(len(vfHashNames))],
		Type:      crop.KeyPairType(string(typ)),
		PublicKey: ed25519.PublicKey(key),
		Easing:    vf.U64(),
	}
	if vf.Choose(2) == 0 {
		addr.Easing = 0
	}
	err := addr.VerifyAddress()

	known := vfHashSize(addr.Hash) != 0
	ip16 := addr.IP.As16()
	// "unknown algorithm or key-type names and odd key sizes are rejected": the only key type is
	// Ed25519, whose public keys have 32 bytes (anything else makes ed25519.Verify panic later)
	keyOK := addr.Type == crop.KeyPairTypeEd25519 && nk == ed25519.PublicKeySize
	shape := addr.IP.IsValid() && addr.IP.Is6() && ip16[0] == 0xfd && addr.Hash != "" && nt > 0 && nk > 0 && known && keyOK
	if err != nil {
		if shape {
			// well-formed: rejection must be due to a digest mismatch (or an unencodable size)
			if len(vfDigests) == 1 {
				d := vfDigests[0].digest
				match := true
				for i := 0; i < 16; i++ {
					if d[i] != ip16[i] {
						match = false
					}
				}
				vf.Assert(!match, "matching-identity-rejected")
				vf.Reach("reject-mismatch")
			}
		} else {
			vf.Reach("reject-shape")
		}
		return
	}
	vf.Assert(shape, "accepted-malformed-identity")
	vf.Assert(len(vfDigests) == 1, "accepted-without-one-digest")
	in := vfDigests[0].in
	want := 4 + nt + nk
	if addr.Easing > 0 {
		want += 8
	}
	vf.Assert(len(in) == want, "digest-input-length")
	vf.Assert(in[0] == 1 && int(in[1]) == nt && int(in[2])<<8|int(in[3]) == nk, "digest-input-header")
	i := vf.Int()
	vf.Assume(i >= 0 && i < nt)
	vf.Assert(in[4+i] == typ[i], "digest-input-type")
	j := vf.Int()
	vf.Assume(j >= 0 && j < nk)
	vf.Assert(in[4+nt+j] == key[j], "digest-input-key")
	if addr.Easing > 0 {
		k := vf.Int()
		vf.Assume(k >= 0 && k < 8)
		vf.Assert(in[4+nt+nk+k] == byte(addr.Easing>>(56-8*uint(k))), "digest-input-easing")
	}
	d := vfDigests[0].digest
	q := vf.Int()
	vf.Assume(q >= 0 && q < 16)
	vf.Assert(d[q] == ip16[q], "address-is-not-digest-prefix")
	vf.Reach("accept")
}

func vfPrefix() netip.Prefix {
	var a [16]byte
	copy(a[:], vf.Bytes(16))
	bits := vf.Int()
	vf.Assume(bits >= 0 && bits <= 128)
	return netip.PrefixFrom(netip.AddrFrom16(a), bits).Masked()
}

// VfC01Generate: every identity tryToGenerateAddress returns passes
// VerifyAddress, lies in an acceptable prefix, in no ignored prefix and not in
// the internal range.
func VfC01Generate() {
	na, ni := vf.Choose(3), vf.Choose(3)
	acc := make([]netip.Prefix, na)
	for i := range acc {
		acc[i] = vfPrefix()
		// callers request Mycoria prefixes: inside fd00::/8
		vf.Assume(acc[i].Bits() >= 8 && BaseNetPrefix.Contains(acc[i].Addr()))
	}
	ign := make([]netip.Prefix, ni)
	for i := range ign {
		ign[i] = vfPrefix()
	}
	maxEasing := uint64(vf.Choose(vf.Param("E") + 1))
	a, n, err := tryToGenerateAddress(acc, ign, maxEasing)
	vf.Assert(err == nil, "generator-error")
	if a == nil {
		vf.Reach("no-address")
		return
	}
	vf.Assert(n == a.Easing+1 && a.Easing <= maxEasing, "easing-not-recorded")
	vf.Assert(a.Hash == AddressDigestAlg && a.Type == crop.KeyPairTypeEd25519 && len(a.PublicKey) == 32 && len(a.PrivateKey) == 64, "generated-shape")
	vf.Assert(a.VerifyAddress() == nil, "generated-identity-does-not-verify")
	in := false
	for _, p := range acc {
		if p.Contains(a.IP) {
			in = true
		}
	}
	vf.Assert(in, "generated-outside-requested-prefixes")
	for _, p := range ign {
		vf.Assert(!p.Contains(a.IP), "generated-inside-ignored-prefix")
	}
	vf.Assert(!InternalPrefix.Contains(a.IP), "generated-inside-internal-range")
	vf.Reach("address")
}

func vfGenerateKey(rnd any) (ed25519.PublicKey, ed25519.PrivateKey, error) {
	priv := vf.FreshBytes(64)
	pub := make([]byte, 32)
	copy(pub, priv[32:])
	return ed25519.PublicKey(pub), ed25519.PrivateKey(priv), nil
}
