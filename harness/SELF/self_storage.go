//go:build verif

package storage

import (
	"net/netip"
	"time"

	"github.com/mycoria/mycoria/m"
	vf "github.com/mycoria/mycoria/zzvf"
)

func vfMixJ(acc, x uint64) uint64 { return (acc<<7 | acc>>57) ^ x ^ 0x9e3779b97f4a7c15 }

func vfFoldStr(acc uint64, s string) uint64 {
	acc = vfMixJ(acc, uint64(len(s)))
	for i := 0; i < len(s); i++ {
		acc = vfMixJ(acc, uint64(s[i]))
	}
	return acc
}

// VfSelfJSON: validation of the JSON round-trip MODEL (vf.JSONCopy) against
// the real codec: a stored state with symbolic content goes through
// vf.JSONCopy, everything that comes back is folded into one word and asserted
// to differ from a free guess. The solver's counterexample (inputs + guess) is
// replayed on the native build, where vf.JSONCopy IS encoding/json: it must
// reproduce, i.e. model and codec agree on what survives (fields kept and
// dropped, omitempty, nil/empty maps and slices, pointers, keys, times).
func VfSelfJSON() {
	var a [16]byte
	copy(a[:], vf.Bytes(16))
	a[0] = 0xfd
	ip := netip.AddrFrom16(a)
	used := time.Unix(int64(1+vf.U32()), 0).UTC()
	r := &StoredRouter{
		Address:   &m.PublicAddress{IP: ip, Hash: "BLAKE3", Type: "Ed25519", PublicKey: vf.Bytes(3), Easing: vf.U64()},
		Universe:  []string{"", "u1"}[vf.Choose(2)],
		Offline:   vf.Bool(),
		CreatedAt: time.Unix(int64(1+vf.U32()), 0).UTC(),
	}
	if vf.Bool() {
		r.UsedAt = &used
	}
	switch vf.Choose(3) {
	case 1:
		r.PublicInfo = &m.RouterInfo{}
	case 2:
		r.PublicInfo = &m.RouterInfo{Version: "v1", Listeners: []string{"tcp:1"}, IANA: []string{}, PublicServices: []m.RouterService{{Name: "n", URL: "u"}}}
	}
	in := &JSONStorageFormat{Routers: map[netip.Addr]*StoredRouter{ip: r}, Mappings: map[string]StoredMapping{}}
	if vf.Bool() {
		in.Mappings["a.myco"] = StoredMapping{Domain: "a.myco", Router: ip, Created: time.Unix(int64(1+vf.U32()), 0).UTC()}
	}
	if vf.Bool() {
		in.Routers = map[netip.Addr]*StoredRouter{} // an empty state
	}
	out := &JSONStorageFormat{}
	ok := vf.JSONCopy(out, in)

	acc := uint64(7)
	if ok {
		acc = vfMixJ(acc, 1)
	}
	if out.Routers == nil {
		acc = vfMixJ(acc, 2)
	}
	if out.Mappings == nil {
		acc = vfMixJ(acc, 3)
	}
	acc = vfMixJ(acc, uint64(len(out.Routers))<<8|uint64(len(out.Mappings)))
	if g := out.Routers[ip]; g != nil {
		if g.Address != nil {
			acc = vfMixJ(acc, g.Address.Easing)
			acc = vfFoldStr(acc, string(g.Address.Hash))
			acc = vfFoldStr(acc, string(g.Address.Type))
			acc = vfFoldStr(acc, string(g.Address.PublicKey))
			if g.Address.IP == ip {
				acc = vfMixJ(acc, 4)
			}
		}
		acc = vfFoldStr(acc, g.Universe)
		if g.Offline {
			acc = vfMixJ(acc, 5)
		}
		acc = vfMixJ(acc, uint64(g.CreatedAt.Unix()))
		if g.UpdatedAt.IsZero() {
			acc = vfMixJ(acc, 6)
		}
		if g.UsedAt != nil {
			acc = vfMixJ(acc, uint64(g.UsedAt.Unix()))
		}
		if g.PublicInfo != nil {
			acc = vfFoldStr(acc, g.PublicInfo.Version)
			acc = vfMixJ(acc, uint64(len(g.PublicInfo.Listeners))<<16|uint64(len(g.PublicInfo.IANA))<<8|uint64(len(g.PublicInfo.PublicServices)))
			if g.PublicInfo.Listeners == nil {
				acc = vfMixJ(acc, 8)
			}
			if g.PublicInfo.IANA == nil {
				acc = vfMixJ(acc, 9)
			}
			for _, sv := range g.PublicInfo.PublicServices {
				acc = vfFoldStr(acc, sv.Name+"|"+sv.Description+"|"+sv.Domain+"|"+sv.URL)
			}
		}
	}
	if mp, has := out.Mappings["a.myco"]; has {
		acc = vfFoldStr(acc, mp.Domain)
		acc = vfMixJ(acc, uint64(mp.Created.Unix()))
		if mp.Router == ip {
			acc = vfMixJ(acc, 10)
		}
	}
	g := vf.U64()
	vf.Assert(acc != g, "witness-json")
}
