//go:build verif

package m

import (
	"net/netip"

	vf "github.com/mycoria/mycoria/zzvf"
)

// Translator validation ("witness") harnesses: each folds what the real code
// computed into one word and asserts that it differs from a free guess. The
// assertion is falsifiable on purpose; the solver's model (inputs + guess)
// must reproduce when the native build runs on the same inputs - i.e. the
// engine's semantics of the executed instructions agree with the compiler's.

func vfMix(acc, x uint64) uint64 { return (acc<<7 | acc>>57) ^ x ^ 0x9e3779b97f4a7c15 }

// VfSelfSwitchBlock: BuildBlocks + forward traversal + TransformToReturnBlock on a 3-hop path.
func VfSelfSwitchBlock() {
	sp := &SwitchPath{Hops: make([]SwitchHop, 3)}
	for i := range sp.Hops {
		sp.Hops[i].ForwardLabel = SwitchLabel(vf.U16())
		sp.Hops[i].ReturnLabel = SwitchLabel(vf.U16())
		sp.Hops[i].Delay = vf.U16()
	}
	sp.Hops[2].ForwardLabel = 0
	sp.Hops[0].ReturnLabel = 0
	vf.Assume(sp.Hops[0].ForwardLabel >= 1 && sp.Hops[0].ForwardLabel <= 16383 && sp.Hops[1].ForwardLabel >= 1 && sp.Hops[1].ForwardLabel <= 16383)
	vf.Assume(sp.Hops[1].ReturnLabel >= 1 && sp.Hops[1].ReturnLabel <= 16383 && sp.Hops[2].ReturnLabel >= 1 && sp.Hops[2].ReturnLabel <= 16383)
	acc := uint64(1)
	if err := sp.BuildBlocks(); err != nil {
		acc = vfMix(acc, 77)
	} else {
		sp.CalculateTotals()
		acc = vfMix(acc, uint64(sp.TotalDelay)<<8|uint64(sp.TotalHops))
		blk := make([]byte, len(sp.ForwardBlock))
		copy(blk, sp.ForwardBlock)
		for i := 1; i < 3; i++ {
			next, err := NextRotateSwitchBlock(blk, sp.Hops[i].ReturnLabel)
			if err != nil {
				acc = vfMix(acc, 99)
			}
			acc = vfMix(acc, uint64(next))
		}
		TransformToReturnBlock(blk)
		for _, b := range blk {
			acc = vfMix(acc, uint64(b))
		}
		for _, b := range sp.ReturnBlock {
			acc = vfMix(acc, uint64(b))
		}
	}
	g := vf.U64()
	vf.Assert(acc != g, "witness-switch-block")
}

// VfSelfAddr: netip and address arithmetic as the routing code uses it.
func VfSelfAddr() {
	var a, b [16]byte
	copy(a[:], vf.Bytes(16))
	copy(b[:], vf.Bytes(16))
	ia, ib := netip.AddrFrom16(a), netip.AddrFrom16(b)
	acc := uint64(2)
	d := IPDistance(ia, ib)
	acc = vfMix(acc, uint64(int64(d.Compare(IPDistance(ib, ib)))))
	if d.Less(IPDistance(ia, RouterAddress)) {
		acc = vfMix(acc, 5)
	}
	bits := int(vf.U8() % 129)
	p, err := ia.Prefix(bits)
	if err == nil && p.Contains(ib) {
		acc = vfMix(acc, 7)
	}
	if BaseNetPrefix.Contains(ia) {
		acc = vfMix(acc, 11)
	}
	if RoutingAddressPrefix.Contains(ia) {
		acc = vfMix(acc, 13)
	}
	if InternalPrefix.Contains(ib) {
		acc = vfMix(acc, 17)
	}
	l, ok := DeriveSwitchLabelFromIP(ia)
	if ok {
		acc = vfMix(acc, uint64(l))
	}
	acc = vfMix(acc, uint64(ia.Compare(ib)+1))
	if ia.Is4In6() {
		acc = vfMix(acc, 19)
	}
	g := vf.U64()
	vf.Assert(acc != g, "witness-addr")
}

// VfSelfTable: AddRoute / lookups / removals on the real routing table with two symbolic routes.
func VfSelfTable() {
	own := vfSelfMyco()
	rt := NewRoutingTable(RoutingTableConfig{RouterIP: own})
	acc := uint64(3)
	for i := 0; i < 2; i++ {
		dst, nh := vfSelfMyco(), vfSelfMyco()
		e := RoutingTableEntry{DstIP: dst, NextHop: nh, Source: RouteSourceGossip}
		e.Path.Hops = []SwitchHop{{Router: own, ForwardLabel: 3}, {Router: nh, Delay: vf.U16(), ForwardLabel: 4, ReturnLabel: 5}, {Router: dst, Delay: vf.U16(), ReturnLabel: 6}}
		if vf.Bool() {
			e = RoutingTableEntry{DstIP: dst, NextHop: dst, Source: RouteSourcePeer}
		}
		added, err := rt.AddRoute(e)
		if added {
			acc = vfMix(acc, 1)
		}
		if err != nil {
			acc = vfMix(acc, 2)
		}
	}
	q := vfSelfMyco()
	r, isDst := rt.LookupNearest(q)
	if r != nil {
		a16 := r.DstIP.As16()
		acc = vfMix(acc, uint64(a16[15])|uint64(a16[1])<<8|uint64(r.Path.TotalDelay)<<16|uint64(r.Path.TotalHops)<<32)
	}
	if isDst {
		acc = vfMix(acc, 3)
	}
	acc = vfMix(acc, uint64(rt.RemoveNextHop(q)))
	acc = vfMix(acc, uint64(len(rt.entries)))
	g := vf.U64()
	vf.Assert(acc != g, "witness-table")
}

func vfSelfMyco() netip.Addr {
	var a [16]byte
	copy(a[:], vf.Bytes(16))
	a[0] = 0xfd
	a[1] &= 0x7f
	return netip.AddrFrom16(a)
}
