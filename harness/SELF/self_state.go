//go:build verif

package state

import (
	vf "github.com/mycoria/mycoria/zzvf"
)

func vfMixS(acc, x uint64) uint64 { return (acc<<7 | acc>>57) ^ x ^ 0x9e3779b97f4a7c15 }

// VfSelfSequence: four symbolic sequence numbers through the real replay
// window, plus the sender side (NextOut with wrap).
func VfSelfSequence() {
	sh := NewSequenceHandler()
	acc := uint64(5)
	for i := 0; i < 4; i++ {
		if err := sh.Check(vf.U32()); err != nil {
			acc = vfMixS(acc, uint64(len(err.Error())))
		} else {
			acc = vfMixS(acc, 1)
		}
	}
	a, _ := sh.Ack() // the receive rate goes through float32: over-approximated by the engine (unconstrained), not comparable
	acc = vfMixS(acc, uint64(a))
	out := NewSequenceHandler()
	out.outSeq.Store(vf.U32())
	n, roll := out.NextOut()
	acc = vfMixS(acc, uint64(n))
	if roll {
		acc = vfMixS(acc, 2)
	}
	if out.RolloverRequired(vf.U32()) {
		acc = vfMixS(acc, 3)
	}
	g := vf.U64()
	vf.Assert(acc != g, "witness-sequence")
}
