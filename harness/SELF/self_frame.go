//go:build verif

package frame

import (
	"net/netip"

	vf "github.com/mycoria/mycoria/zzvf"
)

func vfMixF(acc, x uint64) uint64 { return (acc<<7 | acc>>57) ^ x ^ 0x9e3779b97f4a7c15 }

// VfSelfFrame: build a frame of symbolic shape, re-parse its bytes, mutate
// (TTL, flow, appendix, reply), clone - and fold indices and bytes.
func VfSelfFrame() {
	b := NewFrameBuilder()
	off, ovh := int(vf.U8()%40), int(vf.U8()%40)
	b.SetFrameMargins(off, ovh)
	var s, d [16]byte
	copy(s[:], vf.Bytes(16))
	copy(d[:], vf.Bytes(16))
	mt := MessageType(vf.U8())
	nb, nm, na := int(vf.U8()%20), int(vf.U16()%700), int(vf.U16()%700)
	acc := uint64(4)
	f, err := b.NewFrameV1(netip.AddrFrom16(s), netip.AddrFrom16(d), mt, vf.Bytes(nb), vf.Bytes(nm), vf.Bytes(na))
	if err != nil {
		g := vf.U64()
		vf.Assert(vfMixF(acc, 1) != g, "witness-frame-error")
		return
	}
	f.SetTTL(vf.U8())
	f.ReduceTTL(vf.U8() % 4)
	f.SetFlowFlag(FlowControlFlag(vf.U8()))
	f.SetSequenceNum(vf.U32())
	acc = vfMixF(acc, uint64(len(f.SwitchBlock()))|uint64(len(f.MessageData()))<<16|uint64(len(f.AppendixData()))<<32|uint64(len(f.AuthData()))<<48)
	acc = vfMixF(acc, uint64(f.TTL())|uint64(f.FlowControl())<<8|uint64(f.SequenceNum())<<16)
	data, err := f.FrameDataWithMargins(0, 0)
	if err != nil {
		acc = vfMixF(acc, 2)
	} else {
		cp := make([]byte, len(data))
		copy(cp, data)
		p, err := b.ParseFrame(cp, cp, 0)
		if err != nil {
			acc = vfMixF(acc, 3)
		} else {
			acc = vfMixF(acc, uint64(len(p.MessageData()))|uint64(p.MessageType())<<32|uint64(p.TTL())<<40)
			if p.SrcIP() == f.SrcIP() && p.DstIP() == f.DstIP() {
				acc = vfMixF(acc, 4)
			}
		}
	}
	c := f.Clone().(*FrameV1)
	nx := int(vf.U16() % 900)
	if err := c.SetAppendixData(vf.Bytes(nx)); err != nil {
		acc = vfMixF(acc, 5)
	}
	acc = vfMixF(acc, uint64(len(c.AppendixData()))|uint64(len(f.AppendixData()))<<32)
	if err := c.Reply(nil, vf.Bytes(int(vf.U8()%50)), nil); err != nil {
		acc = vfMixF(acc, 6)
	}
	if c.SrcIP() == f.DstIP() && c.DstIP() == f.SrcIP() {
		acc = vfMixF(acc, 7)
	}
	g := vf.U64()
	vf.Assert(acc != g, "witness-frame")
}
