//go:build verif

package router

import (
	vf "github.com/mycoria/mycoria/zzvf"
)

// VfC07Messages: the ping messages as the receiver DECODES them (see
// peering.VfC04Messages): ping header, announcement and hop record, hello
// request/response, disconnect, error bodies, keep-alive - each with every
// field populated and symbolic through the type-directed codec model
// (vf.CBORCopy over the real struct types and `cbor` tags): equal field by field.
func VfC07Messages() {
	switch vf.Choose(9) {
	case 0:
		a, b := &PingHeader{}, &PingHeader{}
		vf.FillAny(a)
		vf.Assert(vf.CBORCopy(b, a) && vf.DeepEqual(a, b), "ping-header-changed-by-encoding")
	case 1:
		a, b := &AnnouncePingMsg{}, &AnnouncePingMsg{}
		vf.FillAny(a)
		vf.Assert(vf.CBORCopy(b, a) && vf.DeepEqual(a, b), "announcement-changed-by-encoding")
	case 2:
		a, b := &AnnouncePingAttachment{}, &AnnouncePingAttachment{}
		vf.FillAny(a)
		vf.Assert(vf.CBORCopy(b, a) && vf.DeepEqual(a, b), "hop-record-changed-by-encoding")
	case 3:
		a, b := &HelloPingRequest{}, &HelloPingRequest{}
		vf.FillAny(a)
		vf.Assert(vf.CBORCopy(b, a) && vf.DeepEqual(a, b), "hello-request-changed-by-encoding")
	case 4:
		a, b := &HelloPingResponse{}, &HelloPingResponse{}
		vf.FillAny(a)
		vf.Assert(vf.CBORCopy(b, a) && vf.DeepEqual(a, b), "hello-response-changed-by-encoding")
	case 5:
		a, b := &DisconnectPingMsg{}, &DisconnectPingMsg{}
		vf.FillAny(a)
		vf.Assert(vf.CBORCopy(b, a) && vf.DeepEqual(a, b), "disconnect-changed-by-encoding")
	case 6:
		a, b := &unreachableMsg{}, &unreachableMsg{}
		vf.FillAny(a)
		vf.Assert(vf.CBORCopy(b, a) && vf.DeepEqual(a, b), "unreachable-error-changed-by-encoding")
	case 7:
		a, b := &accessDeniedMsg{}, &accessDeniedMsg{}
		vf.FillAny(a)
		vf.Assert(vf.CBORCopy(b, a) && vf.DeepEqual(a, b), "access-denied-error-changed-by-encoding")
	default:
		a, b := &pingPongMsg{}, &pingPongMsg{}
		vf.FillAny(a)
		vf.Assert(vf.CBORCopy(b, a) && vf.DeepEqual(a, b), "keep-alive-changed-by-encoding")
	}
	vf.Reach("done")
}
