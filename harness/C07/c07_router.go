//go:build verif

package router

import (
	"crypto/ed25519"
	"net/netip"
	"time"

	"github.com/mycoria/crop"
	"github.com/mycoria/mycoria/config"
	"github.com/mycoria/mycoria/frame"
	"github.com/mycoria/mycoria/m"
	"github.com/mycoria/mycoria/mgr"
	"github.com/mycoria/mycoria/peering"
	"github.com/mycoria/mycoria/state"
	"github.com/mycoria/mycoria/switchr"
	vf "github.com/mycoria/mycoria/zzvf"
)

// ---- CBOR model: Unmarshal yields an arbitrary decoded value (or an error) ----

var errVfCbor7 = vfErr7("cbor: cannot decode")

type vfErr7 string

func (e vfErr7) Error() string { return string(e) }

const kPeerSign = 51 // key id (last key byte) of the known peer's signing key

func vfKey7(id byte, n int) []byte {
	k := make([]byte, n)
	k[n-1] = id
	return k
}

func vfCborUnmarshal7(data []byte, v any) error {
	if vf.Bool() {
		return errVfCbor7
	}
	switch dst := v.(type) {
	case *PingHeader:
		dst.PingID = vf.U64()
		dst.PingType = []string{"vf", "hello", "x!"}[vf.Choose(3)]
		dst.PingCode = vf.U8()
		dst.FollowUp = vf.Bool()
		dst.AddrHash = []crop.Hash{crop.BLAKE3, "bogus", ""}[vf.Choose(3)]
		dst.KeyType = []crop.KeyPairType{crop.KeyPairTypeEd25519, ""}[vf.Choose(2)]
		if vf.Bool() {
			dst.PublicKey = ed25519.PublicKey(vf.Bytes(32))
		}
	}
	return nil
}

type vfPingHandler struct {
	called int
	f      frame.Frame
}

func (h *vfPingHandler) Type() string { return "vf" }
func (h *vfPingHandler) Handle(w *mgr.WorkerCtx, f frame.Frame, hdr *PingHeader, data []byte) error {
	h.called++
	h.f = f
	return nil
}
func (h *vfPingHandler) Clean(w *mgr.WorkerCtx) error { return nil }

// VfC07Ping: an arbitrary ping-class frame (signed RouterPing / RouterHopPing
// or encrypted RouterCtrl) from a known or unknown source with an arbitrary
// decoded header reaches a ping handler only if it verified (signature / AEAD)
// under the key bound to its source address; for an unknown source a session
// is created only after the header's key material hashed to the frame source.
func VfC07Ping() {
	own, src := vfMycoAddr(), vfMycoAddr()
	vf.Assume(own != src)
	id := &m.Address{PublicAddress: m.PublicAddress{IP: own}, PrivateKey: ed25519.PrivateKey(vfKey7(50, 64))}
	cfg := &config.Config{}
	inst := &vfRInst{id: id, cfg: cfg, builder: frame.NewFrameBuilder()}
	known := vf.Bool()
	if known {
		inst.st = state.VfNewState(&state.VfInstance{Id: id, Cfg: cfg}, &m.PublicAddress{IP: src, PublicKey: ed25519.PublicKey(vfKey7(kPeerSign, 32))})
		if vf.Bool() {
			enc := state.VfEncSession(vf.NewAEAD(52), vf.NewAEAD(53))
			enc.VfSeqStateEnc()
			inst.st.VfPeerSession(src).SetEncryptionSession(enc)
		}
	} else {
		inst.st = state.VfNewState(&state.VfInstance{Id: id, Cfg: cfg})
	}
	r := &Router{instance: inst, pingHandlers: map[string]PingHandler{}}
	h := &vfPingHandler{}
	r.pingHandlers["vf"] = h

	mt := []frame.MessageType{frame.RouterPing, frame.RouterHopPing, frame.RouterHopPingDeprecated, frame.RouterCtrl}[vf.Choose(4)]
	n := vf.Int()
	vf.Assume(n >= 1 && n <= 80)
	dst := own
	if vf.Bool() {
		dst = m.RouterAddress
	}
	f, err := inst.builder.NewFrameV1(src, dst, mt, nil, vf.Bytes(n), nil)
	if err != nil {
		vf.Stop()
	}
	// the signature / MAC area holds arbitrary bytes
	vf.Havoc(f.AuthData())
	if !mt.IsEncrypted() {
		f.SetSequenceTime(vf.TimeSec()) // signed frames carry an arbitrary timestamp
	}
	// the source's signed-frame history: newest accepted timestamp so far (zero for a new session)
	var latest time.Time
	if known && vf.Bool() {
		latest = vf.TimeSec()
		inst.st.VfPeerSession(src).VfSetSignLatest(latest)
	}
	frameTime := f.SequenceTime()

	err = r.handlePing(vfW, f)

	if h.called > 0 {
		vf.Assert(h.called == 1 && err == nil, "handler-call-count")
		if mt == frame.RouterCtrl {
			vf.Assert(known && len(vf.Opens) == 1 && vf.Opens[0].OK && vf.Opens[0].KeyID == 52, "handled-without-decryption-under-source-session")
			vf.Reach("handled-encrypted")
		} else {
			vf.Assert(len(vf.Verifies) >= 1 && vf.Verifies[len(vf.Verifies)-1].OK, "handled-without-verified-signature")
			v := vf.Verifies[len(vf.Verifies)-1]
			// replay protection: strictly newer than everything accepted from this source; only hop pings
			// (which legitimately arrive over several peers) may repeat the newest timestamp
			hop := mt == frame.RouterHopPing || mt == frame.RouterHopPingDeprecated
			vf.Assert(frameTime.After(latest) || (hop && frameTime.Equal(latest)), "replayed-or-delayed-ping-handled")
			if hop && frameTime.Equal(latest) {
				vf.Reach("handled-hop-duplicate")
			}
			if known {
				vf.Assert(v.KeyID == kPeerSign, "verified-under-other-key")
				vf.Reach("handled-known")
			} else {
				// first contact: exactly one digest was computed and its first 16 bytes are the frame source
				vf.Assert(len(m.VfDigests()) == 1, "first-contact-without-address-check")
				d := m.VfDigests()[0]
				s16 := src.As16()
				q := vf.Int()
				vf.Assume(q >= 0 && q < 16)
				vf.Assert(d[q] == s16[q], "first-contact-key-does-not-hash-to-source")
				sess := inst.st.VfPeerSession(src)
				vf.Assert(sess != nil && sess.Address().IP == src, "first-contact-session-for-other-address")
				vf.Reach("handled-first-contact")
			}
			// what was verified is the frame's signed range with TTL and flow flags zeroed
			vf.Assert(len(v.Msg) == len(f.VfSignedRange()), "verified-range-length")
		}
	} else {
		vf.Reach("not-handled")
	}
	if !known && (inst.st.VfHasRouter(src) || inst.st.VfPeerSession(src) != nil) {
		// a stored record / session for a first-contact source exists only if its key material hashed to that address
		vf.Assert(len(m.VfDigests()) == 1, "record-stored-without-address-check")
		d := m.VfDigests()[0]
		s16 := src.As16()
		q := vf.Int()
		vf.Assume(q >= 0 && q < 16)
		vf.Assert(d[q] == s16[q], "record-stored-for-key-that-does-not-hash-to-source")
	}
}

var _ = netip.Addr{}

// ---- effects keyed by the authenticated source ----

var (
	vfRemoved []netip.Addr
	vfOffline []netip.Addr
)

func vfRemoveDisconnected(rt *m.RoutingTable, router netip.Addr, disconnected []netip.Addr) int {
	vfRemoved = append(vfRemoved, router)
	vf.Assert(len(disconnected) == 0, "disconnect-handler-passes-peer-list")
	if vf.Bool() {
		return 0
	}
	return 1
}

func vfMarkOffline(st *state.State, id netip.Addr) error {
	vfOffline = append(vfOffline, id)
	return nil
}

func vfCborDisconnect(data []byte, v any) error {
	if vf.Bool() {
		return errVfCbor7
	}
	if dst, ok := v.(*DisconnectPingMsg); ok {
		dst.GoingDown = vf.Bool()
		n := vf.Choose(3)
		for i := 0; i < n; i++ {
			dst.Disconnected = append(dst.Disconnected, vfMycoAddr())
		}
	}
	return nil
}

// VfC07Disconnect: a (verified) disconnect ping from X with an arbitrary body
// removes routes only by naming X, marks only X offline, and is never
// forwarded to X, back over the receiving link, or to lite peers.
func VfC07Disconnect() {
	own, src := vfMycoAddr(), vfMycoAddr()
	vf.Assume(own != src)
	id := &m.Address{PublicAddress: m.PublicAddress{IP: own}}
	cfg := &config.Config{}
	cfg.Router.Stub = vf.Bool()
	inst := &vfRInst{id: id, cfg: cfg, builder: frame.NewFrameBuilder()}
	inst.st = state.VfNewState(&state.VfInstance{Id: id, Cfg: cfg})
	recv := &peering.VfLink{Label: 5, PeerIP: vfMycoAddr()}
	other := &peering.VfLink{Label: 6, PeerIP: vfMycoAddr(), IsLite: vf.Bool()}
	srcLink := &peering.VfLink{Label: 7, PeerIP: src}
	vf.Assume(recv.PeerIP != other.PeerIP && recv.PeerIP != own && other.PeerIP != own && other.PeerIP != src)
	links := []peering.Link{recv, other}
	if recv.PeerIP != src {
		links = append(links, srcLink)
	}
	inst.peer = peering.VfNewPeering(nil, links...)
	inst.sw = switchr.VfNewSwitch(inst.peer, id)
	r := &Router{instance: inst}
	h := NewDisconnectPingHandler(r)
	f, err := inst.builder.NewFrameV1(src, m.RouterAddress, frame.RouterPing, nil, vf.Bytes(8), nil)
	if err != nil {
		vf.Stop()
	}
	f.SetRecvLink(recv)
	_ = h.Handle(vfW, f, &PingHeader{}, f.MessageData())
	for _, x := range vfRemoved {
		vf.Assert(x == src, "disconnect-removed-routes-of-other-router")
	}
	for _, x := range vfOffline {
		vf.Assert(x == src, "disconnect-marked-other-router-offline")
	}
	vf.Assert(len(recv.Sent)+len(recv.Prio) == 0, "disconnect-forwarded-back-to-receiving-link")
	vf.Assert(len(srcLink.Sent)+len(srcLink.Prio) == 0, "disconnect-forwarded-to-its-origin")
	if other.IsLite {
		vf.Assert(len(other.Sent)+len(other.Prio) == 0, "disconnect-forwarded-to-lite-peer")
	}
	if cfg.Router.Stub {
		vf.Assert(len(other.Sent)+len(other.Prio) == 0, "stub-router-forwarded")
	}
	if len(other.Sent)+len(other.Prio) > 0 {
		vf.Reach("forwarded")
	}
	vf.Reach("done")
}


// ---- error pings ----

func vfCborError(data []byte, v any) error {
	if vf.Bool() {
		return errVfCbor7
	}
	switch dst := v.(type) {
	case *unreachableMsg:
		dst.Unreachable = vfMycoAddr()
	case *accessDeniedMsg:
		dst.DstIP = vfMycoAddr()
		dst.Protocol = vf.U8()
		dst.DstPort = vf.U16()
	}
	return nil
}

// VfC07Error: a (verified) error ping from X with any code and any decoded
// body clears only X's encryption session (code 2) and never that of another
// router; connection-cache entries can only be moved to a non-allowed status.
func VfC07Error() {
	own, src, other := vfMycoAddr(), vfMycoAddr(), vfMycoAddr()
	vf.Assume(own != src && own != other && src != other)
	id := &m.Address{PublicAddress: m.PublicAddress{IP: own}}
	cfg := &config.Config{}
	inst := &vfRInst{id: id, cfg: cfg, builder: frame.NewFrameBuilder()}
	inst.st = state.VfNewState(&state.VfInstance{Id: id, Cfg: cfg}, &m.PublicAddress{IP: src}, &m.PublicAddress{IP: other})
	inst.st.VfPeerSession(src).SetEncryptionSession(state.VfEncSession(vf.NewAEAD(1), vf.NewAEAD(2)))
	encOther := state.VfEncSession(vf.NewAEAD(3), vf.NewAEAD(4))
	inst.st.VfPeerSession(other).SetEncryptionSession(encOther)
	r := &Router{instance: inst, connStates: make(map[connStateKey]*connStateEntry)}
	ck := connStateKey{localIP: own, remoteIP: vfMycoAddr(), protocol: vf.U8(), localPort: vf.U16(), remotePort: vf.U16()}
	st0 := connStatus(vf.Choose(6))
	ce := &connStateEntry{notify: make(chan connStatus)}
	ce.status.Store(uint32(st0))
	r.connStates[ck] = ce
	h := NewErrorPingHandler(r)
	f, err := inst.builder.NewFrameV1(src, own, frame.RouterPing, nil, []byte("12345678"), nil)
	if err != nil {
		vf.Stop()
	}
	code := uint8(vf.Choose(6)) // the five defined codes and one undefined
	_ = h.Handle(vfW, f, &PingHeader{PingCode: code}, f.MessageData())
	vf.Assert(inst.st.VfPeerSession(other).VfEnc() == encOther, "error-ping-changed-session-of-other-router")
	if inst.st.VfPeerSession(src).VfEnc() == nil {
		vf.Assert(code == 2, "session-cleared-by-other-error-code")
		vf.Reach("session-cleared")
	}
	st1 := connStatus(ce.status.Load())
	if st1 != st0 {
		vf.Assert(st1 != connStatusAllowed && st1 != connStatusUnknown, "error-ping-made-connection-allowed")
		vf.Reach("connection-marked")
	}
	vf.Reach("done")
}

// ---- hello: a hello from X re-keys only the session with X ----

var vfHelloSent []sendPingOpts

func vfSendPingHello(r *Router, opts sendPingOpts) error {
	vfHelloSent = append(vfHelloSent, opts)
	if vf.Bool() {
		return errVfCbor7
	}
	return nil
}

func vfCborHello(data []byte, v any) error {
	if vf.Bool() {
		return errVfCbor7
	}
	switch dst := v.(type) {
	case *HelloPingRequest:
		n := vf.Choose(3) * 16 // 0, 16 or 32 bytes of key share
		dst.KeyExchange = vf.Bytes(n)
		dst.KeyExchangeType = []string{"ECDH-X25519/BLAKE3", "", "other"}[vf.Choose(3)]
		dst.MTU = vf.Int()
	case *HelloPingResponse:
		n := vf.Choose(3) * 16
		dst.KeyExchange = vf.Bytes(n)
		dst.KeyExchangeType = []string{"ECDH-X25519/BLAKE3", "", "other"}[vf.Choose(3)]
		dst.MTU = vf.Int()
		if vf.Bool() {
			dst.Err = "no"
		}
	}
	return nil
}

func vfCborMarshalHello(v any) ([]byte, error) { return []byte{0xa1, 1, 2, 3}, nil }

// VfC07Hello: a (verified) hello request or response from X with an arbitrary
// decoded body, while this router also has a session with - and possibly a
// pending hello of its own to - another router Y, and possibly a pending hello
// to X: afterwards Y's session (encryption object, keys, receive windows,
// MTU) and Y's pending exchange are exactly what they were; only X's session
// may have new keys; a response is accepted only for the pending exchange
// with X carrying that exchange's ping id, and at most once; whatever is sent
// goes to X.
func VfC07Hello() {
	own, src, other := vfMycoAddr(), vfMycoAddr(), vfMycoAddr()
	vf.Assume(own != src && own != other && src != other)
	id := &m.Address{PublicAddress: m.PublicAddress{IP: own}}
	cfg := &config.Config{}
	inst := &vfRInst{id: id, cfg: cfg, builder: frame.NewFrameBuilder()}
	inst.st = state.VfNewState(&state.VfInstance{Id: id, Cfg: cfg}, &m.PublicAddress{IP: src}, &m.PublicAddress{IP: other})
	encSrc := state.VfEncSession(vf.NewAEAD(1), vf.NewAEAD(2))
	if vf.Bool() {
		inst.st.VfPeerSession(src).SetEncryptionSession(encSrc)
	}
	encOther := state.VfEncSession(vf.NewAEAD(3), vf.NewAEAD(4))
	encOther.VfSeqStateEnc()
	inst.st.VfPeerSession(other).SetEncryptionSession(encOther)
	mtuOther := 1300 + vf.Choose(2)*100
	inst.st.VfPeerSession(other).SetTunMTU(mtuOther)
	w0 := encOther.VfSeqSnap()
	oin0, oout0, _ := encOther.VfKeys()
	r := &Router{instance: inst}
	h := NewHelloPingHandler(r)
	r.HelloPing = h
	// pending exchanges of our own
	var pendSrc, pendOther *helloPingState
	if vf.Bool() {
		_, err := h.Send(src)
		vf.Assume(err == nil)
		pendSrc = h.active[src]
	}
	if vf.Bool() {
		_, err := h.Send(other)
		vf.Assume(err == nil)
		pendOther = h.active[other]
	}
	vfHelloSent = nil
	f, err := inst.builder.NewFrameV1(src, own, frame.RouterPing, nil, []byte("12345678"), nil)
	if err != nil {
		vf.Stop()
	}
	hdr := &PingHeader{PingID: vf.U64(), FollowUp: vf.Bool()}
	srcEnc0 := inst.st.VfPeerSession(src).VfEnc()
	herr := h.Handle(vfW, f, hdr, f.MessageData())

	// the other router's session and pending exchange are untouched
	so := inst.st.VfPeerSession(other)
	vf.Assert(so.VfEnc() == encOther, "hello-replaced-session-of-other-router")
	oin1, oout1, _ := encOther.VfKeys()
	vf.Assert(oin1 == oin0 && oout1 == oout0 && encOther.VfSeqSnap() == w0, "hello-changed-keys-or-windows-of-other-router")
	vf.Assert(so.TunMTU() == mtuOther, "hello-changed-mtu-of-other-router")
	vf.Assert(h.active[other] == pendOther, "hello-changed-pending-exchange-with-other-router")
	if pendOther != nil {
		vf.Assert(!pendOther.done.Load(), "hello-completed-pending-exchange-with-other-router")
	}
	for _, o := range vfHelloSent {
		vf.Assert(o.dst == src, "hello-reply-sent-to-somebody-else")
	}
	if hdr.FollowUp {
		// a response: only for the pending exchange with X, with its id, once
		if herr == nil {
			vf.Assert(pendSrc != nil && hdr.PingID == pendSrc.pingID, "hello-response-accepted-without-matching-pending-exchange")
			vf.Assert(inst.st.VfPeerSession(src).VfEnc() == pendSrc.encSession, "accepted-response-did-not-install-the-pending-exchange")
			vf.Assert(h.Handle(vfW, f, hdr, f.MessageData()) != nil, "hello-response-accepted-twice")
			vf.Reach("response-accepted")
		} else {
			vf.Assert(inst.st.VfPeerSession(src).VfEnc() == srcEnc0, "refused-response-changed-the-session")
			vf.Reach("response-refused")
		}
	} else if herr == nil {
		vf.Assert(len(vfHelloSent) == 1 && vfHelloSent[0].followUp && vfHelloSent[0].pingID == hdr.PingID, "request-not-answered-with-its-id")
		vf.Reach("request-served")
	} else {
		vf.Reach("request-refused")
	}
}
