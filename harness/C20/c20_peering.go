//go:build verif

package peering

import (
	"net"
	"net/netip"

	"github.com/mycoria/mycoria/config"
	"github.com/mycoria/mycoria/m"
	"github.com/mycoria/mycoria/mgr"
	"github.com/mycoria/mycoria/state"
	vf "github.com/mycoria/mycoria/zzvf"
)

// ---- protocol model: binding / dialling succeeds or fails (port in use, nobody there) ----

type vfListener20 struct {
	id  string
	url *m.PeeringURL
}

func (l *vfListener20) ID() string                  { return l.id }
func (l *vfListener20) PeeringURL() *m.PeeringURL   { return l.url }
func (l *vfListener20) ListenAddress() net.Addr     { return nil }
func (l *vfListener20) Close(log func())            {}

var vfStarted20 []string

func vfStartListener20(p *Peering, u *m.PeeringURL, ip netip.Addr) (Listener, error) {
	if vf.Bool() {
		return nil, errVfIO // bind failed (address in use, no permission, ...)
	}
	id := "L-other" // (PeeringURL.String formats with fmt, which the engine does not model)
	switch u.Port {
	case 47369:
		id = "L-47369"
	case 47370:
		id = "L-47370"
	}
	ln := &vfListener20{id: id, url: u}
	p.AddListener(id, ln)
	vfStarted20 = append(vfStarted20, id)
	return ln, nil
}

func vfPeerWith20(p *Peering, u *m.PeeringURL, ip netip.Addr) (Link, error) {
	return nil, errVfIO // nobody answers (a link that comes up is the subject of C04 / C16)
}

var vfW20 = &mgr.WorkerCtx{}

// VfC20Managers: the listen manager and the connect manager of a relay-only
// router (no tun device) over a configuration the parser accepts: listen and
// connect URLs of a known protocol, of a protocol this build does not have
// (the URL syntax is valid, so config.Parse accepts it), or unparsable; every
// bind and dial may fail. Two manager rounds (start-up and the next tick): no
// panic, every URL whose listener is up is left alone, every other one is
// tried again, and one failing URL does not keep the following ones from
// being served.
func VfC20Managers() {
	urls := []string{"tcp://:47369", "tcp://127.0.0.1:47370", "kcp://:47371", "://nonsense"}
	var listen, connect []string
	for _, u := range urls {
		if vf.Bool() {
			listen = append(listen, u)
		}
	}
	if vf.Bool() {
		connect = append(connect, "tcp://peer.example:47369")
	}
	if vf.Bool() {
		connect = append(connect, "kcp://peer.example:47369")
	}
	cfg := &config.Config{}
	cfg.Router.Listen, cfg.Router.Connect = listen, connect
	own := &m.Address{PublicAddress: m.PublicAddress{IP: netip.MustParseAddr("fd1f::1")}}
	p := &Peering{
		instance:  &vfInstance{cfg: cfg, id: own, st: state.VfNewState(&state.VfInstance{Id: own, Cfg: cfg})},
		links:     map[netip.Addr]Link{}, linksByLabel: map[m.SwitchLabel]Link{},
		listeners: map[string]Listener{}, protocols: map[string]Protocol{},
	}
	p.AddProtocol("tcp", NewProtocol("tcp", vfPeerWith20, vfStartListener20))

	listening := map[string]string{}
	connected := map[string]netip.Addr{}
	for round := 0; round < 2; round++ {
		before := len(vfStarted20)
		up := map[string]bool{}
		for u, id := range listening {
			up[u] = p.GetListener(id) != nil
		}
		p.checkListen(vfW20, listening)
		p.checkConnect(vfW20, connected)
		// a URL whose listener is up was not started again
		for _, id := range vfStarted20[before:] {
			for u, wasUp := range up {
				vf.Assert(!(wasUp && listening[u] == id), "running-listener-started-again")
			}
		}
		// every started listener is recorded under its URL, and only tcp URLs can be up
		for u, id := range listening {
			vf.Assert(p.GetListener(id) != nil, "recorded-listener-not-registered")
			vf.Assert(u == urls[0] || u == urls[1], "listener-recorded-for-unusable-url")
		}
	}
	if len(listening) > 0 {
		vf.Reach("listening")
	}
	if len(listen) > len(listening) {
		vf.Reach("some-listener-failed")
	}
	vf.Reach("done")
}
