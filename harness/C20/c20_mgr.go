//go:build verif

package mgr

import (
	"context"
	"errors"
	"time"

	vf "github.com/mycoria/mycoria/zzvf"
)

// vfMod behaves like the repo's modules: Manager() reads a field through the
// receiver, so calling it on a typed nil pointer dereferences nil (exactly as
// (*tun.Device).Manager, (*netstack.NetStack).Manager, (*dns.Server).Manager do).
type vfMod struct {
	mgr      *Manager
	id       int
	startErr error
	stopErr  error
}

var vfLog []int

func (m *vfMod) Manager() *Manager { return m.mgr }
func (m *vfMod) Start() error      { vfLog = append(vfLog, m.id); return m.startErr }
func (m *vfMod) Stop() error       { vfLog = append(vfLog, -m.id); return m.stopErr }

var errVf = errors.New("vf: module error")

func vfMaybeErr() error {
	if vf.Bool() {
		return errVf
	}
	return nil
}

func vfWithCancel(parent context.Context) (context.Context, context.CancelFunc) {
	return parent, func() { vf.Event("cancel") }
}

// vfWaitForWorkers: workers may or may not have finished in time.
func vfWaitForWorkers(m *Manager, max time.Duration) bool {
	if m.workerCnt.Load() == 0 {
		return true
	}
	return vf.Bool()
}

// VfC20Group: NewGroup with every optional module independently present,
// typed-nil (as instance.go passes for a disabled tun device / netstack / dns
// / api / dashboard) or untyped nil never panics and holds exactly the present
// modules in order; Start starts in order and unwinds in reverse on failure;
// Stop stops in reverse and reports failure iff a Stop erred or workers remained.
func VfC20Group() {
	K := vf.Param("K")
	mods := make([]Module, K)
	var present []int
	for i := 0; i < K; i++ {
		switch vf.Choose(3) {
		case 0:
			var mg *Manager
			if vf.Symbolic() {
				mg = &Manager{name: "m", cancelCtx: func() {}}
			} else {
				mg = New("m")
			}
			if vf.Bool() {
				mg.workerCnt.Store(1) // a worker still running at stop time
			}
			mods[i] = &vfMod{mgr: mg, id: i + 1, startErr: vfMaybeErr(), stopErr: vfMaybeErr()}
			present = append(present, i+1)
		case 1:
			mods[i] = (*vfMod)(nil)
		default:
			mods[i] = nil
		}
	}
	g := NewGroup(mods...)
	vf.Assert(len(g.modules) == len(present), "group-size")
	for j, id := range present {
		vf.Assert(g.modules[j].module.(*vfMod).id == id, "group-order")
	}
	vfLog = nil
	err := g.Start()
	// expected: starts 1..f in order; if f failed, stops f..1
	failed := -1
	for j, id := range present {
		if failed < 0 && g.modules[j].module.(*vfMod).startErr != nil {
			failed = j
		}
		_ = id
	}
	if failed < 0 {
		vf.Assert(err == nil && len(vfLog) == len(present), "start-all")
		for j, id := range present {
			vf.Assert(vfLog[j] == id, "start-order")
		}
		vfLog = nil
		ok := g.Stop()
		vf.Assert(len(vfLog) == len(present), "stop-all")
		wantOK := true
		for j := range present {
			vf.Assert(vfLog[j] == -present[len(present)-1-j], "stop-reverse-order")
			m := g.modules[j].module.(*vfMod)
			if m.stopErr != nil {
				wantOK = false
			}
		}
		if !ok {
			vf.Reach("stop-reported-failure")
		}
		vf.Assert(vfI20(ok, wantOK), "stop-ok-despite-error")
		vf.Reach("started-and-stopped")
	} else {
		vf.Assert(err != nil, "start-error-lost")
		vf.Assert(len(vfLog) == 2*(failed+1), "start-unwind-length")
		for j := 0; j <= failed; j++ {
			vf.Assert(vfLog[j] == present[j], "start-order")
			vf.Assert(vfLog[failed+1+j] == -present[failed-j], "unwind-reverse-order")
		}
		vf.Reach("start-failed-unwound")
	}
}

func vfI20(a, b bool) bool { return !a || b }

// VfC20Workers: the real worker bookkeeping of a Manager (workerStart,
// workerDone with its notification channel, WaitForWorkers with its timers)
// through an arbitrary sequence of K worker starts and exits, followed by a
// WaitForWorkers: it reports "all workers done" exactly when no worker is
// running - in particular a notification left over from an earlier moment
// when the count touched zero must not be taken for the present.
func VfC20Workers() {
	m := newManager(context.Background(), "vf", "manager")
	K := vf.Param("WK")
	for k := 0; k < K; k++ {
		if vf.Choose(2) == 0 {
			m.workerStart()
		} else {
			vf.Assume(m.workerCnt.Load() > 0)
			m.workerDone()
		}
	}
	running := m.workerCnt.Load()
	done := m.WaitForWorkers(time.Second)
	vf.Assert(!done || running == 0, "wait-reports-done-while-workers-run")
	vf.Assert(done || running > 0, "wait-reports-workers-when-none-run")
	if done {
		vf.Reach("all-done")
	} else {
		vf.Reach("still-running")
	}
}

// Timer models: a timer's channel holds its tick from the start (time passes
// while nobody else runs); Reset does not re-arm it (re-checking an unchanged
// counter again adds no behaviour); Stop is a no-op.
func vfNewTimer(d time.Duration) *time.Timer {
	ch := make(chan time.Time, 1)
	ch <- time.Time{}
	return &time.Timer{C: ch}
}
func vfTimerStop(t *time.Timer) bool                   { return true }
func vfTimerReset(t *time.Timer, d time.Duration) bool { return true }

// ---- helpers for the instance-level harness (package mycoria) ----

// VfModules returns the modules of the group in order.
func (g *Group) VfModules() []Module {
	var out []Module
	for _, gm := range g.modules {
		out = append(out, gm.module)
	}
	return out
}

var (
	vfStartedNames []string
	vfCancelled    = map[*Manager]bool{}
	vfWaitOrderOK  = true
)

// vfGo models Manager.Go: the goroutine is not run; the worker counts as started.
func vfGo(m *Manager, name string, fn func(w *WorkerCtx) error) {
	vfStartedNames = append(vfStartedNames, name)
	m.workerStart()
}

// vfCancel models Manager.Cancel: records it; workers exit on cancellation.
func vfCancel(m *Manager) {
	vfCancelled[m] = true
	n := m.workerCnt.Load()
	for i := int32(0); i < n; i++ {
		m.workerDone()
	}
}

// vfWaitCancelled models WaitForWorkers for the instance harness.
func vfWaitCancelled(m *Manager, max time.Duration) bool {
	if !vfCancelled[m] && m.workerCnt.Load() > 0 {
		vfWaitOrderOK = false
	}
	return m.workerCnt.Load() == 0
}

func VfWorkers(m *Manager) int { return int(m.workerCnt.Load()) }
func VfStarted(name string) bool {
	for _, n := range vfStartedNames {
		if n == name {
			return true
		}
	}
	return false
}
func VfAllCancelledBeforeWait() bool { return vfWaitOrderOK }
