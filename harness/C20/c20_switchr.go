//go:build verif

package switchr

import (
	"github.com/mycoria/mycoria/frame"
	vf "github.com/mycoria/mycoria/zzvf"
)

// VfC20Escalate: shutdown order is router, switch, peering, so a switch worker
// can be handed a frame after the router's frame handlers have exited. With
// nobody receiving on the router input (unbuffered, as New creates it) handing
// a frame up must not block the worker: it is dropped. A plain channel send
// would block for ever and the switch could not be stopped.
func VfC20Escalate() {
	s := &Switch{routerInput: make(chan frame.Frame), input: make(chan frame.Frame)}
	b := frame.NewFrameBuilder()
	f, err := b.NewFrameV1(vfAddr(), vfAddr(), frame.RouterPing, nil, []byte("x"), nil)
	if err != nil {
		vf.Stop()
	}
	_ = s.escalateFrame(f)
	vf.Assert(vf.Count("send") == 0, "switch-worker-blocks-handing-a-frame-to-a-router-that-stopped-receiving")
	vf.Reach("returned")
}
