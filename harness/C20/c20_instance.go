//go:build verif

package mycoria

import (
	"errors"
	"net"
	"net/netip"

	"github.com/mycoria/mycoria/api/httpapi"
	"github.com/mycoria/mycoria/config"
	"github.com/mycoria/mycoria/dashboard"
	"github.com/mycoria/mycoria/m"
	"github.com/mycoria/mycoria/mgr"
	vf "github.com/mycoria/mycoria/zzvf"
)

// ---- C20 "relay": the instance wiring of a relay-only router ----
// New / Start / Stop of the real Instance for every relay-only configuration
// shape (tun disabled; lite / stub / isolate flags, universe with or without
// secret, API listener configured or not, state in memory). Sockets and the
// HTTP/dashboard internals are models; goroutines are not run: Manager.Go
// records the worker and counts it as started, and a worker is taken to exit
// once its manager was cancelled (that every worker function does so is
// outside this harness).

func vfIdentity20(s m.AddressStorage) (*m.Address, error) {
	a := [16]byte{0xfd, 0x1f, 9}
	a[15] = 1
	return &m.Address{PublicAddress: m.PublicAddress{IP: netip.AddrFrom16(a), PublicKey: make([]byte, 32)}, PrivateKey: make([]byte, 64)}, nil
}

var errVf20 = errors.New("vf: no country marker")

func vfCountryMarker20(ip netip.Addr) (*m.CountryMarkerLookup, error) { return nil, errVf20 }

type vfListener20 struct{}

func (vfListener20) Accept() (net.Conn, error) { return nil, errVf20 }
func (vfListener20) Close() error              { return nil }
func (vfListener20) Addr() net.Addr            { return nil }

var vfListens20 int

// a free loopback port, as the property assumes
func vfListen20(network, address string) (net.Listener, error) {
	vfListens20++
	return vfListener20{}, nil
}

func vfDashboardNew20(inst any) (*dashboard.Dashboard, error) { return &dashboard.Dashboard{}, nil }

func vfNumCPU20() int { return 2 }

// VfC20Relay: see above.
func VfC20Relay() {
	cfg := &config.Config{}
	cfg.System.DisableTun = true
	cfg.Router.Lite, cfg.Router.Stub, cfg.Router.Isolate, cfg.Router.AutoConnect = vf.Bool(), vf.Bool(), vf.Bool(), vf.Bool()
	switch vf.Choose(3) {
	case 1:
		cfg.Router.Universe = "u1"
	case 2:
		cfg.Router.Universe, cfg.Router.UniverseSecret = "u1", "s3cret"
	}
	withAPI := vf.Bool()
	if withAPI {
		cfg.APIListen = netip.AddrPortFrom(netip.AddrFrom4([4]byte{127, 0, 0, 1}), vf.U16())
	}
	inst, err := New("vf", cfg)
	vf.Assert(err == nil && inst != nil, "relay-only-router-not-constructed")
	vf.Assert(inst.tunDevice == nil && inst.netstack == nil && inst.dns == nil, "tun-parts-created-although-disabled")
	vf.Assert(inst.storage != nil && inst.state != nil && inst.peering != nil && inst.switchr != nil && inst.router != nil, "core-module-missing")
	vf.Assert((inst.api != nil) == withAPI && vfListens20 == vfI20(withAPI), "api-listener-not-served-exactly-when-configured")
	// the group holds exactly the present modules, dependencies first
	want := []mgr.Module{inst.storage, inst.state}
	if withAPI {
		want = append(want, inst.api)
	}
	want = append(want, inst.peering, inst.switchr, inst.router)
	got := inst.Group.VfModules()
	vf.Assert(len(got) == len(want), "module-group-size")
	for i := range want {
		vf.Assert(i < len(got) && got[i] == want[i], "module-group-order")
	}
	// start: every module starts its workers
	vf.Assert(inst.Start() == nil, "relay-only-router-does-not-start")
	vf.Assert(mgr.VfWorkers(inst.state.Manager()) == 1, "state-workers")
	vf.Assert(mgr.VfWorkers(inst.peering.Manager()) == 2, "peering-workers")
	vf.Assert(mgr.VfWorkers(inst.switchr.Manager()) == vfNumCPU20(), "switch-workers")
	vf.Assert(mgr.VfWorkers(inst.router.Manager()) == 6+vfNumCPU20(), "router-workers")
	if withAPI {
		vf.Assert(mgr.VfWorkers(inst.api.Manager()) == 1, "api-workers")
		vf.Reach("with-api")
	}
	vf.Assert(!mgr.VfStarted("tun handler"), "tun-worker-started-without-tun")
	// stop: reverse order, every manager cancelled before it is waited for, success
	ok := inst.Stop()
	vf.Assert(ok, "clean-stop-reports-failure")
	vf.Assert(mgr.VfAllCancelledBeforeWait(), "workers-waited-for-before-cancel")
	for _, mod := range got {
		vf.Assert(mgr.VfWorkers(mod.Manager()) == 0, "worker-left-running")
	}
	vf.Reach("started-and-stopped")
}

func vfI20(b bool) int {
	if b {
		return 1
	}
	return 0
}

var _ = httpapi.New

func vfCborMarshal20(v any) ([]byte, error) { return []byte{0xa1, 0x01, 0x02, 0x03}, nil }

func vfNewPingID20() uint64 { return 7 }
