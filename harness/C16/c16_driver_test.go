//go:build verif

package peering

import (
	"fmt"
	"net"
	"net/netip"
	"os"
	"testing"

	"github.com/mycoria/mycoria/frame"
	"github.com/mycoria/mycoria/m"
)

// TestVfC16Driver reproduces the registry violations natively with real
// LinkBase objects over net.Pipe and the real routing table.
func TestVfC16Driver(t *testing.T) {
	tag := os.Getenv("VF_TAG")
	own := netip.MustParseAddr("fd11::1")
	inst := &vfInstance{builder: frame.NewFrameBuilder(), rt: m.NewRoutingTable(m.RoutingTableConfig{RouterIP: own})}
	p := New(inst, make(chan frame.Frame, 10))
	mk := func(peer string, label m.SwitchLabel) *LinkBase {
		c1, _ := net.Pipe()
		l := newLinkBase(c1, nil, false, p)
		l.peer = netip.MustParseAddr(peer)
		l.switchLabel = label
		return l
	}
	switch tag {
	case "live-link-not-found-by-peer", "live-link-without-peer-route", "peer-route-without-live-link":
		// both ends dialled each other: two connections to one peer, both past the "already connected" test
		l1, l2 := mk("fd22::2", 10), mk("fd22::2", 11)
		e1 := p.AddLink(l1)
		e2 := p.AddLink(l2)
		if e2 != nil {
			l2.Close(nil) // what setupWorker does
		}
		live1 := e1 == nil && !l1.IsClosing()
		if live1 && p.GetLink(l1.peer) != Link(l1) {
			fmt.Println("VF-DRIVER: reproduced " + tag + " (second AddLink for the same peer replaced the first registration)")
			return
		}
		if e2 == nil {
			l2.Close(nil)
		}
		if live1 && (p.GetLink(l1.peer) != Link(l1) || p.GetLinkByLabel(10) != Link(l1)) {
			fmt.Println("VF-DRIVER: reproduced " + tag + " (closing the duplicate unregistered the live link)")
			return
		}
		rte, isDst := inst.rt.LookupNearest(l1.peer)
		if live1 && (rte == nil || !isDst) {
			fmt.Println("VF-DRIVER: reproduced " + tag + " (peer route of the live link removed)")
			return
		}
	case "live-link-not-found-by-label", "live-links-share-label":
		// two peers whose label probes both ran before either registered
		l1, l2 := mk("fd22::2", 10), mk("fd33::3", 10)
		e1 := p.AddLink(l1)
		e2 := p.AddLink(l2)
		if e2 != nil {
			l2.Close(nil)
		}
		if e1 == nil && !l1.IsClosing() && p.GetLinkByLabel(10) != Link(l1) {
			fmt.Println("VF-DRIVER: reproduced " + tag + " (second AddLink with the same label replaced the first registration)")
			return
		}
		if e2 == nil && !l2.IsClosing() && p.GetLinkByLabel(10) != Link(l2) {
			fmt.Println("VF-DRIVER: reproduced " + tag)
			return
		}
	}
	fmt.Println("VF-DRIVER: not-reproduced")
}
