//go:build verif

package peering

import (
	"net/netip"

	"github.com/mycoria/mycoria/m"
	vf "github.com/mycoria/mycoria/zzvf"
)

// ---- models ----

// ghost routing table: peer routes only (the real table is C11's subject)
var vfPeerRoutes = map[netip.Addr]bool{}

func vfRTAddRoute(rt *m.RoutingTable, e m.RoutingTableEntry) (bool, error) {
	vf.Event("rt.op")
	vfPeerRoutes[e.DstIP] = true
	return true, nil
}

func vfRTRemoveNextHop(rt *m.RoutingTable, ip netip.Addr) int {
	vf.Event("rt.op")
	delete(vfPeerRoutes, ip)
	return 1
}

var (
	vfP         *Peering
	vfRandCalls int
)

// vfRandLabel models GetRandomSwitchLabel: an arbitrary label of the requested
// class; from the third call on, one that is currently free (the real probing
// loop retries up to 100/1000 times).
func vfRandLabel(forRoutable bool) (m.SwitchLabel, bool) {
	l := m.SwitchLabel(vf.U16())
	if forRoutable {
		vf.Assume(l >= 1 && l <= 127)
	} else {
		vf.Assume(l >= 128 && l <= 16383)
	}
	vfRandCalls++
	if vfRandCalls > 2 {
		vf.Assume(vfP.GetLinkByLabel(l) == nil)
	}
	return l, true
}

func vfAddr16() netip.Addr {
	var a [16]byte
	copy(a[:], vf.Bytes(16))
	a[0] = 0xfd
	return netip.AddrFrom16(a)
}

func vfI16(a, b bool) bool { return !a || b }

type vfLinkState struct {
	l          *LinkBase
	labelled   bool
	registered bool // AddLink returned nil
}

// vfCheckJ asserts the registry invariant at a quiescent point.
func vfCheckJ(p *Peering, ls []*vfLinkState) {
	for _, s := range ls {
		live := s.registered && !s.l.closing.Load()
		if live {
			vf.Assert(p.GetLink(s.l.peer) == Link(s.l), "live-link-not-found-by-peer")
			vf.Assert(p.GetLinkByLabel(s.l.switchLabel) == Link(s.l), "live-link-not-found-by-label")
			vf.Assert(s.l.switchLabel != 0, "live-link-with-zero-label")
			vf.Assert(vfPeerRoutes[s.l.peer], "live-link-without-peer-route")
		}
		if s.l.closing.Load() {
			vf.Assert(p.GetLink(s.l.peer) != Link(s.l), "closing-link-found-by-peer")
			vf.Assert(p.GetLinkByLabel(s.l.switchLabel) != Link(s.l), "closing-link-found-by-label")
		}
	}
	for i, a := range ls {
		for j, b := range ls {
			if i < j && a.registered && b.registered && !a.l.closing.Load() && !b.l.closing.Load() {
				vf.Assert(a.l.switchLabel != b.l.switchLabel, "live-links-share-label")
			}
		}
	}
	// no peer route without a live link
	for _, s := range ls {
		if vfPeerRoutes[s.l.peer] {
			has := false
			for _, t := range ls {
				if t.registered && !t.l.closing.Load() && t.l.peer == s.l.peer {
					has = true
				}
			}
			vf.Assert(has, "peer-route-without-live-link")
		}
	}
}

// VfC16Churn: L link objects (peers symbolic, possibly the same peer on two
// connections = both ends dialled each other) go through an arbitrary sequence
// of K steps: assign a switch label (real assignSwitchLabel, before or after
// other links register), AddLink, local Close, CloseLink by peer address; the
// registry invariant is asserted after every step.
func VfC16Churn() {
	L, K := vf.Param("L"), vf.Param("K")
	p := &Peering{links: map[netip.Addr]Link{}, linksByLabel: map[m.SwitchLabel]Link{}, instance: &vfInstance{}}
	vfP = p
	// the model "every schedule is a sequence of atomic steps" is only sound if the registry maps
	// are never touched outside linksLock: record every access to them
	vf.GuardMap(p.links, "registry")
	vf.GuardMap(p.linksByLabel, "registry")
	ls := make([]*vfLinkState, L)
	for i := range ls {
		ls[i] = &vfLinkState{l: &LinkBase{conn: &vfConn{closeErr: vf.Bool()}, peering: p, closed: make(chan struct{}), peer: vfAddr16()}}
	}
	for k := 0; k < K; k++ {
		s := ls[vf.Choose(L)]
		switch vf.Choose(5) {
		case 0: // setup step 1: label (only once, before registering)
			vf.Assume(!s.labelled && !s.l.closing.Load())
			// handlePeeringRequest refuses when a link to that peer is already registered
			vf.Assume(p.GetLink(s.l.peer) == nil)
			vf.Assume(s.l.assignSwitchLabel() == nil)
			s.labelled = true
		case 1: // setup step 2: register
			vf.Assume(s.labelled && !s.registered && !s.l.closing.Load())
			if p.AddLink(s.l) == nil {
				s.registered = true
			} else {
				s.l.Close(nil) // setupWorker closes the link when AddLink fails
			}
		case 2: // local close / I/O failure / remote close (reader or writer calls Close)
			vf.Assume(s.labelled)
			s.l.Close(nil)
		case 3: // close by peer address (manager)
			vf.Assume(s.registered)
			p.CloseLink(s.l.peer)
		default: // readers of the registry and the shutdown path (Peering.Stop closes all links)
			_ = p.LinkCnt()
			_ = p.GetLinks()
			_ = p.IsStub()
			if vf.Bool() {
				p.closeAllLinks()
				for _, t := range ls {
					if t.registered {
						vf.Assert(t.l.closing.Load(), "link-survives-close-all")
					}
				}
			}
		}
		vfCheckJ(p, ls)
	}
	// the steps above are atomic only if registry and peer routes change together under linksLock
	vf.Assert(vf.HeldDuring(&p.linksLock, "rt.op"), "peer-route-changed-outside-registry-lock")
	vf.Assert(vf.HeldDuring(&p.linksLock, "map:registry"), "registry-map-touched-outside-registry-lock")
	vf.Reach("done")
}
