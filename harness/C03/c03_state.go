//go:build verif

package state

import (
	"crypto/ed25519"

	"github.com/mycoria/crop"
	"net/netip"
	"time"

	"github.com/mycoria/mycoria/config"
	"github.com/mycoria/mycoria/m"
	vf "github.com/mycoria/mycoria/zzvf"
)

// VfC03BMC: bounded model check of the anti-replay window from the real
// initial states: K arbitrary non-zero sequence numbers (any order, any
// multiplicity) are pushed through the real SequenceHandler.Check.
func VfC03BMC() {
	k := vf.Param("K")
	var sh *SequenceHandler
	if vf.Choose(2) == 0 {
		sh = new(SequenceHandler) // as NewEncryptionSession creates it
	} else {
		sh = NewSequenceHandler() // as the repo's tests create it
	}
	var accepted [8]uint32
	n := 0
	var newest uint32
	for i := 0; i < k; i++ {
		seq := vf.U32()
		vf.Assume(seq != 0) // senders never emit 0 (NextOut skips it)
		dup := false
		for j := 0; j < n; j++ {
			if accepted[j] == seq {
				dup = true
			}
		}
		err := sh.Check(seq)
		if err == nil {
			vf.Assert(!dup, "accepted-twice")
			accepted[n] = seq
			n++
			if seq > newest {
				newest = seq
			}
		} else if !dup {
			fresh := seq > newest || newest-seq <= 64
			vf.Assert(!fresh, "fresh-in-window-rejected")
		}
	}
	vf.Reach("done")
}

func vfImplies(a, b bool) bool { return !a || b }

// VfC03Induct: one Check step from an ARBITRARY state satisfying the
// representation invariant I(highest, bitMap, A), A = set of sequence numbers
// accepted so far (uninterpreted predicate). Covers delivery histories of any
// length by induction. Quantifiers are skolemised: the post-state clauses are
// checked at fresh symbolic points (q, x) and the pre-state clauses are
// assumed at the instances the step reads.
func VfC03Induct() {
	A := func(x uint32) bool { return vf.UF("A", uint64(x)) }
	sh := new(SequenceHandler)
	h := vf.U32()
	bm := vf.U64()
	sh.highest = h
	sh.bitMap = bm
	seq := vf.U32()
	vf.Assume(seq != 0)
	q := vf.U32() // skolem bit distance for the post-state bitmap clause
	x := vf.U32() // skolem "above highest" witness for the post-state

	// --- pre-state invariant, instantiated ---
	pre := func(d uint32) bool { // bitmap clause at distance d
		return vfImplies(d >= 1 && d <= 64 && d <= h, ((bm>>(d-1))&1 == 1) == A(h-d))
	}
	above := func(y uint32) bool { return vfImplies(y > h, !A(y)) }
	vf.Assume(A(0))
	vf.Assume(A(h))
	vf.Assume(above(seq))
	vf.Assume(above(x))
	vf.Assume(pre(h - seq))       // the bit tested for a late frame
	vf.Assume(pre(q))             // unchanged bits (late frame accepted/rejected)
	vf.Assume(pre(q - (seq - h))) // shifted bits (newer frame)
	vf.Assume(above(seq - q))     // gap between old and new highest (newer frame)

	err := sh.Check(seq)
	h2, bm2 := sh.highest, sh.bitMap
	accepted := err == nil

	// safety: accepted only if never accepted before
	vf.Assert(vfImplies(accepted, !A(seq)), "accepted-twice")
	// liveness: fresh and newer than, or at most 64 behind, the newest accepted
	vf.Assert(vfImplies(!A(seq) && (seq > h || h-seq <= 64), accepted), "fresh-in-window-rejected")

	// --- post-state invariant for A' = A ∪ {seq if accepted} ---
	A2 := func(y uint32) bool { return A(y) || (accepted && y == seq) }
	vf.Assert(A2(h2), "inv-highest-accepted")
	vf.Assert(vfImplies(x > h2, !A2(x)), "inv-nothing-above-highest")
	vf.Assert(vfImplies(q >= 1 && q <= 64 && q <= h2, ((bm2>>(q-1))&1 == 1) == A2(h2-q)), "inv-bitmap")
	vf.Assert(vfImplies(!accepted, h2 == h && bm2 == bm), "reject-leaves-state")
	if accepted {
		vf.Reach("accept")
	} else {
		vf.Reach("reject")
	}
}

// VfC03Time: one TimeSequenceHandler.Check step from an arbitrary state:
// accepted iff strictly newer than the newest accepted; the state moves only
// on accept. (By induction: signed frames are accepted only in strictly
// increasing timestamp order.)
func VfC03Time() {
	sh := NewTimeSequenceHandler(0)
	latest := vf.Time()
	if vf.Choose(2) == 0 {
		sh.latest = latest
	} else {
		latest = sh.latest // the real initial state (zero time)
	}
	t := vf.Time()
	newer := t.Unix() > latest.Unix() || (t.Unix() == latest.Unix() && t.Nanosecond() > latest.Nanosecond())
	err := sh.Check(t)
	vf.Assert((err == nil) == newer, "accept-iff-strictly-newer")
	if err == nil {
		vf.Assert(sh.latest == t, "latest-updated")
		vf.Reach("accept")
	} else {
		vf.Assert(sh.latest == latest, "reject-leaves-state")
		vf.Reach("reject")
	}
}

func vfAddr03() netip.Addr {
	var a [16]byte
	copy(a[:], vf.Bytes(16))
	a[0] = 0xfd
	return netip.AddrFrom16(a)
}

// VfC03Persist: the replay state of a session is forgotten only together with
// the key it protects. A session whose signed-frame filter has accepted
// timestamp T (and whose encryption windows are in an arbitrary state) goes
// through one session-level operation that is not a replacement of the peer's
// signing key - installing or clearing an encryption session (as the hello
// handler and the 'no encryption keys' error handler do), lazily creating one,
// re-keying in place as client or server, setting the MTU, being looked up
// again. Afterwards the State still hands out the same session, a signed
// frame stamped <= T is still refused, and - where the encryption session
// object and its keys were kept - the receive windows are what they were.
func VfC03Persist() {
	ip := vfAddr03()
	own := &m.Address{PublicAddress: m.PublicAddress{IP: vfAddr03(), PublicKey: ed25519.PublicKey(make([]byte, 32))}, PrivateKey: ed25519.PrivateKey(make([]byte, 64))}
	st := VfNewState(&VfInstance{Id: own, Cfg: &config.Config{}}, &m.PublicAddress{IP: ip, PublicKey: ed25519.PublicKey(make([]byte, 32))})
	s := st.GetSession(ip)
	vf.Assert(s != nil, "no-session")
	T := vf.TimeSec()
	vf.Assert(s.Signing().Seq().Check(T) == nil, "first-signed-frame-refused")
	sig0, seq0 := s.Signing(), s.Signing().Seq()
	hadEnc := vf.Bool()
	var enc0 *EncryptionSession
	var w0 [4]uint64
	if hadEnc {
		enc0 = VfEncSession(vf.NewAEAD(1), vf.NewAEAD(2))
		enc0.VfSeqStateEnc()
		s.SetEncryptionSession(enc0)
		w0 = enc0.VfSeqSnap()
	}
	keysKept := true
	switch vf.Choose(9) {
	case 0:
		s.SetEncryptionSession(NewEncryptionSession())
		keysKept = false
	case 1:
		s.SetEncryptionSession(nil)
		keysKept = false
	case 2:
		_ = st.SetEncryptionSession(ip, NewEncryptionSession())
		keysKept = false
	case 3:
		_ = st.SetEncryptionSession(ip, nil)
		keysKept = false
	case 4:
		_ = s.Encryption()
	case 5:
		s.SetTunMTU(vf.Int())
	case 6:
		_ = st.GetSession(ip)
	case 7:
		_, _, _ = s.Encryption().InitKeyClientStart()
	default:
		_, _, err := s.Encryption().InitKeyServer(vf.Bytes(32), "ECDH-X25519/BLAKE3")
		keysKept = err != nil
		if err == nil {
			vf.Reach("re-keyed-in-place")
		}
	}
	s2 := st.GetSession(ip)
	vf.Assert(s2 == s, "session-object-replaced")
	vf.Assert(s2.Signing() == sig0 && s2.Signing().Seq() == seq0, "signed-frame-replay-state-replaced")
	t := vf.TimeSec()
	if !t.After(T) {
		vf.Assert(s2.Signing().Seq().Check(t) != nil, "signed-frame-not-newer-than-an-accepted-one-accepted-after-session-operation")
		vf.Reach("old-signed-frame-refused")
	} else {
		vf.Assert(s2.Signing().Seq().Check(t) == nil, "newer-signed-frame-refused-after-session-operation")
	}
	if hadEnc && keysKept {
		vf.Assert(s2.VfEnc() == enc0, "encryption-session-replaced-without-new-keys")
		vf.Assert(enc0.VfSeqSnap() == w0, "receive-window-changed-without-new-keys")
		vf.Reach("windows-kept")
	}
}

// VfC03Expiry: the session cleaner. After any idle time the cleaner may drop
// a session; a session created afresh for the same router must not accept a
// signed frame that the dropped one had already accepted.
func VfC03Expiry() {
	ip := vfAddr03()
	own := &m.Address{PublicAddress: m.PublicAddress{IP: vfAddr03(), PublicKey: ed25519.PublicKey(make([]byte, 32))}, PrivateKey: ed25519.PrivateKey(make([]byte, 64))}
	st := VfNewState(&VfInstance{Id: own, Cfg: &config.Config{}})
	// a router whose identity proves its address (sessions are only re-created from stored
	// identities that do): the hash is a model, the digest prefix is assumed to be the address
	ra := &m.PublicAddress{IP: ip, Hash: crop.BLAKE3, Type: crop.KeyPairTypeEd25519, PublicKey: ed25519.PublicKey(make([]byte, 32))}
	vf.Assume(ra.VerifyAddress() == nil)
	vf.Assert(st.AddRouter(ra) == nil, "add-router")
	s := st.GetSession(ip)
	vf.Assert(s != nil, "no-session")
	T := vf.TimeSec()
	vf.Assert(s.Signing().Seq().Check(T) == nil, "first-signed-frame-refused")
	if vf.Bool() {
		s.SetEncryptionSession(VfEncSession(vf.NewAEAD(1), vf.NewAEAD(2)))
	}
	st.cleanSessions() // the clock has moved on by an arbitrary amount since the session was used
	s2 := st.GetSession(ip)
	vf.Assert(s2 != nil, "no-session-after-cleaning")
	if s2 != s {
		vf.Reach("session-expired")
	} else {
		vf.Reach("session-kept")
	}
	vf.Assert(s2.Signing().Seq().Check(T) != nil, "signed-frame-accepted-again-after-the-session-expired")
}

// VfC03SenderClock: the receiver accepts signed frames of one source only in
// strictly increasing timestamp order (VfC03Time); an honest source therefore
// has to stamp everything it sends to one receiver in increasing order, also
// when the frames are sealed under different sessions of the sender - a unicast
// to the receiver (session with that router) and a frame to "all routers" (the
// session with the routers' group address), as a keep-alive ping followed by an
// announcement - or raw-signed. K frames, each sealed under either session or raw, whatever the clock
// reads (any non-decreasing readings, also the same millisecond), delivered in
// order: "a frame that is not a duplicate and is newer than ... the newest frame
// accepted so far ... is accepted" - none may be refused.
func VfC03SenderClock() {
	K := vf.Param("K")
	toPeer, toAll := NewTimeSequenceHandler(0), NewTimeSequenceHandler(0)
	rx := NewTimeSequenceHandler(0)
	for k := 0; k < K; k++ {
		var t time.Time
		switch vf.Choose(3) {
		case 0:
			t = toPeer.Next()
		case 1:
			t = toAll.Next()
		default:
			// a raw-signed frame (peering request, ping to the all-routers address): the stamp
			// createPeeringRequest / sendPingMsg put on it
			t = NextSeqTime(DefaultPrecision)
		}
		vf.Assert(rx.Check(t) == nil, "in-order-frame-of-an-honest-sender-refused")
	}
	vf.Reach("done")
}
