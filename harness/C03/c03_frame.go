//go:build verif

package frame

import (
	"crypto/ed25519"
	"time"

	"github.com/mycoria/mycoria/state"
	vf "github.com/mycoria/mycoria/zzvf"
)

func vfKey03(id byte, n int) []byte {
	k := make([]byte, n)
	k[n-1] = id
	return k
}

// VfC03Unseal: a frame of any message type sealed by A is offered to B, whose
// replay state (window of either class, newest signed timestamp) is
// arbitrary: Unseal returns nil only if the sequence number was acceptable
// to the window of the frame's class as it stood (signed frames: timestamp
// strictly newer than the newest accepted), and the same bytes offered again
// are refused.
func VfC03Unseal() {
	b := NewFrameBuilder()
	b.SetFrameMargins(12, 16)
	mt := MessageType(vf.U8())
	f, err := b.NewFrameV1(vfAddr(), vfAddr(), mt, nil, vf.Bytes(8), nil)
	if err != nil {
		vf.Stop()
	}
	sA := state.VfSession(f.dst, ed25519.PrivateKey(vfKey03(11, 64)), ed25519.PublicKey(vfKey03(12, 32)), vf.NewAEAD(22), vf.NewAEAD(21))
	sB := state.VfSession(f.src, ed25519.PrivateKey(vfKey03(12, 64)), ed25519.PublicKey(vfKey03(11, 32)), vf.NewAEAD(21), vf.NewAEAD(22))
	sA.VfSeqState()
	sB.VfSeqState()
	vf.Assume(sA.VfNoRollover() && sB.VfNoRollover())
	var latest time.Time
	if vf.Bool() {
		latest = vf.TimeSec()
	}
	sB.VfSetSignLatest(latest)
	if f.Seal(sA) != nil {
		vf.Reach("seal-refused")
		return
	}
	cls := mt.Class()
	wire, _ := f.FrameDataWithMargins(0, 0)
	again := make([]byte, len(wire))
	copy(again, wire)
	w0 := sB.VfEnc().VfSeqSnap()
	seq, ft := f.SequenceNum(), f.SequenceTime()
	nOpen, nVer := len(vf.Opens), len(vf.Verifies)
	if f.Unseal(sB) != nil {
		// refused: only for a reason the property allows - the primitive rejected the bytes, or the
		// replay filter of the frame's class, as it stood, does not accept the number / timestamp
		switch cls {
		case MessageClassSigned:
			verified := len(vf.Verifies) > nVer && vf.Verifies[len(vf.Verifies)-1].OK
			vf.Assert(!(verified && ft.After(latest)), "newer-signed-frame-refused")
		case MessageClassPriorityEncrypted, MessageClassEncrypted:
			opened := len(vf.Opens) > nOpen && vf.Opens[len(vf.Opens)-1].OK
			notTried := len(vf.Opens) == nOpen
			vf.Assert(!((opened || notTried) && state.VfSeqAccepts(w0, seq, cls == MessageClassPriorityEncrypted)), "frame-within-the-replay-window-refused")
			// bytes that did not authenticate never move a receive window (else a forged or late frame
			// could push the window - or, near the wrap, the key epoch - away from the sender's)
			if !opened {
				vf.Assert(sB.VfEnc().VfSeqSnap() == w0, "replay-window-moved-by-unauthenticated-frame")
				vf.Reach("unauthenticated-frame-left-window-alone")
			}
		}
		vf.Reach("rejected")
		return
	}
	switch cls {
	case MessageClassSigned:
		vf.Assert(ft.After(latest), "signed-frame-accepted-without-newer-timestamp")
		vf.Reach("accepted-signed")
	case MessageClassPriorityEncrypted:
		vf.Assert(state.VfSeqAccepts(w0, seq, true), "frame-accepted-that-the-replay-window-rejects")
		vf.Reach("accepted-priority")
	default:
		vf.Assert(state.VfSeqAccepts(w0, seq, false), "frame-accepted-that-the-replay-window-rejects")
		vf.Reach("accepted-regular")
	}
	// the very same bytes a second time
	g, err := b.ParseFrameV1(again, nil, 0)
	if err != nil {
		vf.Stop()
	}
	vf.Assert(g.Unseal(sB) != nil, "same-frame-accepted-twice")
}
