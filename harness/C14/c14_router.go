//go:build verif

package router

import (
	"net/netip"

	"github.com/mycoria/mycoria/config"
	"github.com/mycoria/mycoria/frame"
	"github.com/mycoria/mycoria/m"
	"github.com/mycoria/mycoria/state"
	vf "github.com/mycoria/mycoria/zzvf"
)

// ---- network model: sendPingMsg appends to the multiset of sent messages ----

type vfMsg struct {
	from      *Router
	opts      sendPingOpts
	delivered bool
}

var vfNet []vfMsg

func vfSendPingMsg(r *Router, opts sendPingOpts) error {
	vfNet = append(vfNet, vfMsg{from: r, opts: opts})
	return nil
}

// ---- CBOR model: Marshal yields an opaque token, Unmarshal of a token gives the value back ----

type vfTok struct {
	data []byte
	val  any
}

var vfToks []vfTok

func vfCborMarshal(v any) ([]byte, error) {
	t := vf.FreshBytes(8)
	vfToks = append(vfToks, vfTok{t, v})
	return t, nil
}

func vfCborUnmarshal(data []byte, v any) error {
	for _, t := range vfToks {
		if vf.SameObject(data, t.data) {
			switch dst := v.(type) {
			case *HelloPingRequest:
				*dst = *(t.val.(*HelloPingRequest))
			case *HelloPingResponse:
				*dst = *(t.val.(*HelloPingResponse))
			}
			return nil
		}
	}
	return errVfCbor14
}

var errVfCbor14 = vfErr14("cbor: unexpected data")

type vfErr14 string

func (e vfErr14) Error() string { return string(e) }

func vfRouter(own netip.Addr, peer netip.Addr) *Router {
	id := &m.Address{PublicAddress: m.PublicAddress{IP: own}}
	inst := &vfRInst{id: id, cfg: &config.Config{}, builder: frame.NewFrameBuilder()}
	inst.st = state.VfNewState(&state.VfInstance{Id: id, Cfg: inst.cfg}, &m.PublicAddress{IP: peer})
	r := &Router{instance: inst}
	r.HelloPing = NewHelloPingHandler(r)
	return r
}

// VfC14Hello: two routers A and B with their real HelloPingHandlers and real
// sessions exchange hello messages under an arbitrary schedule of up to K
// steps: either router starts a setup (as handleTunPacket does when the session
// is missing or not set up), any sent message is delivered (any number of
// times... [each message at most once: replay protection], in any order) or never. Time passes arbitrarily (pending setups may
// expire). At the end nothing more is delivered (in-flight messages are lost).
// Claim: never both "set up" with keys that cannot decrypt each other.
func VfC14Hello() {
	K := vf.Param("K")
	ipA, ipB := vfMycoAddr(), vfMycoAddr()
	vf.Assume(ipA != ipB)
	A, B := vfRouter(ipA, ipB), vfRouter(ipB, ipA)
	b := frame.NewFrameBuilder()
	if vf.Bool() {
		// start from an earlier, completed setup over which traffic has flowed; then one router
		// (or neither) lost its encryption session (restart, session cleanup, "no encryption keys" error ping)
		k1, k2 := vf.U64(), vf.U64()
		vf.Assume(k1 != k2)
		ea := state.VfEncSession(&vf.AEAD{KeyID: -1, K: k1}, &vf.AEAD{KeyID: -1, K: k2})
		eb := state.VfEncSession(&vf.AEAD{KeyID: -1, K: k2}, &vf.AEAD{KeyID: -1, K: k1})
		ea.VfTraffic(eb)
		eb.VfTraffic(ea)
		A.instance.State().GetSession(ipB).SetEncryptionSession(ea)
		B.instance.State().GetSession(ipA).SetEncryptionSession(eb)
		switch vf.Choose(3) {
		case 1:
			A.instance.State().GetSession(ipB).SetEncryptionSession(nil)
		case 2:
			B.instance.State().GetSession(ipA).SetEncryptionSession(nil)
		}
		vf.Reach("started-from-established-state")
	}
	aInit, bInit := false, false
	aServedPending, bServedPending := false, false // served the peer's request while an own setup was outstanding
	for k := 0; k < K; k++ {
		switch vf.Choose(4) {
		case 3:
			// traffic flows in both directions under the current keys (only possible while they match)
			ea, eb := A.instance.State().GetSession(ipB).VfEnc(), B.instance.State().GetSession(ipA).VfEnc()
			ai, ao, as := ea.VfKeys()
			bi, bo, bs := eb.VfKeys()
			vf.Assume(as && bs && ao == bi && bo == ai)
			ea.VfTraffic(eb)
			eb.VfTraffic(ea)
		case 0:
			// handleTunPacket starts a setup only when the session is missing or not set up
			vf.Assume(!A.instance.State().GetSession(ipB).Encryption().IsSetUp())
			_, _ = A.HelloPing.Send(ipB)
			aInit = true
		case 1:
			vf.Assume(!B.instance.State().GetSession(ipA).Encryption().IsSetUp())
			_, _ = B.HelloPing.Send(ipA)
			bInit = true
		default:
			if len(vfNet) == 0 {
				vf.Stop()
			}
			mi := vf.Choose(len(vfNet))
			msg := vfNet[mi]
			// the same frame is never accepted twice (signed frames are replay protected: C03); retries are new messages
			vf.Assume(!msg.delivered)
			// hello messages are signed frames: a receiver accepts a sender's frames only in strictly
			// increasing timestamp (= send) order, so nothing older than an already delivered one arrives (C03)
			for j := mi + 1; j < len(vfNet); j++ {
				vf.Assume(!(vfNet[j].from == msg.from && vfNet[j].delivered))
			}
			vfNet[mi].delivered = true
			dst, src := A, ipB
			if msg.from == A {
				dst, src = B, ipA
			}
			f, err := b.NewFrameV1(src, msg.opts.dst, frame.RouterPing, nil, []byte{1}, nil)
			if err != nil {
				vf.Stop()
			}
			hdr := &PingHeader{PingID: msg.opts.pingID, PingType: msg.opts.pingType, FollowUp: msg.opts.followUp}
			if !hdr.FollowUp {
				if st := dst.HelloPing.active[src]; st != nil && !st.done.Load() {
					if dst == A {
						aServedPending = true
					} else {
						bServedPending = true
					}
				}
			}
			_ = dst.HelloPing.Handle(vfW, f, hdr, msg.opts.pingData)
		}
	}
	sA := A.instance.State().GetSession(ipB)
	sB := B.instance.State().GetSession(ipA)
	aIn, aOut, aSet := sA.VfEnc().VfKeys()
	bIn, bOut, bSet := sB.VfEnc().VfKeys()
	allDelivered := true
	for _, msg := range vfNet {
		if !msg.delivered {
			allDelivered = false
		}
	}
	if aSet && bSet {
		match := aOut == bIn && bOut == aIn
		switch {
		case aServedPending && bServedPending:
			// both routers served the other's request while their own setup was outstanding
			vf.Assert(match, "mismatching-keys-after-crossing-setups")
		case aInit && bInit && !allDelivered:
			// both initiated and a setup message was lost for good
			vf.Assert(match, "mismatching-keys-after-crossing-setups-with-lost-message")
		case aInit && bInit:
			vf.Assert(match, "mismatching-keys-after-crossing-setups-all-delivered")
		default:
			vf.Assert(match, "mismatching-keys-with-one-initiator")
		}
		if match {
			// traffic sealed by either one unseals at the other: the next frame of each class
			// is acceptable to the receiver's replay window
			ea, eb := sA.VfEnc(), sB.VfEnc()
			vf.Assert(state.VfSeqAccepts(eb.VfSeqSnap(), ea.VfNextOut(false), false) && state.VfSeqAccepts(eb.VfSeqSnap(), ea.VfNextOut(true), true), "keys-match-but-next-frame-rejected-by-replay-window")
			vf.Assert(state.VfSeqAccepts(ea.VfSeqSnap(), eb.VfNextOut(false), false) && state.VfSeqAccepts(ea.VfSeqSnap(), eb.VfNextOut(true), true), "keys-match-but-next-frame-rejected-by-replay-window")
		}
		vf.Reach("both-set-up")
	} else {
		vf.Reach("not-both-set-up")
	}
}

