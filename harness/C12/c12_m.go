//go:build verif

package m

import (
	vf "github.com/mycoria/mycoria/zzvf"
)

// vfLabel returns an arbitrary non-zero label of a chosen size class
// (1, 2 or 3 encoded bytes); the class is a concrete case split, the value
// inside the class is symbolic.
func vfLabel() SwitchLabel {
	l := SwitchLabel(vf.U16())
	switch vf.Choose(3) {
	case 0:
		vf.Assume(l >= 1 && l <= 127)
	case 1:
		vf.Assume(l >= 128 && l <= 16383)
	default:
		vf.Assume(l >= 16384)
	}
	return l
}

func vfPath(hops int) *SwitchPath {
	sp := &SwitchPath{Hops: make([]SwitchHop, hops)}
	for i := 0; i < hops; i++ {
		if i < hops-1 {
			sp.Hops[i].ForwardLabel = vfLabel()
		}
		if i > 0 {
			sp.Hops[i].ReturnLabel = vfLabel()
		}
	}
	return sp
}

const vfGuard = 8

// VfC12Traverse: forward traversal, reversal, return traversal and reversal
// back, on a block embedded between guard bytes (so a write beyond len but
// within cap is seen).
func VfC12Traverse() {
	hops := 2 + vf.Choose(vf.Param("N")-1)
	sp := vfPath(hops)
	// the path may already hold blocks of an earlier build (a re-announced route, a copied
	// table entry): arbitrary old contents, shared with a copy of the path
	var oldF, oldR, keepF []byte
	if vf.Bool() {
		nf, nr := vf.Int(), vf.Int()
		vf.Assume(nf >= 0 && nf <= 12 && nr >= 0 && nr <= 12)
		oldF, oldR = make([]byte, nf, 12), make([]byte, nr, 12)
		copy(oldF[:12], vf.Bytes(12))
		copy(oldR[:12], vf.Bytes(12))
		keepF = append([]byte(nil), oldF[:12]...)
		sp.ForwardBlock, sp.ReturnBlock = oldF, oldR
		vf.Reach("rebuilt")
	}
	err := sp.BuildBlocks()
	vf.Assert(err == nil, "build-error")
	if err != nil {
		return
	}
	if keepF != nil {
		// building never writes into the blocks another copy of the path still holds
		z := vf.Int()
		vf.Assume(z >= 0 && z < 12)
		vf.Assert(oldF[:12][z] == keepF[z], "rebuild-overwrote-blocks-of-a-copy")
	}
	size := len(sp.ForwardBlock)
	vf.Assert(len(sp.ReturnBlock) == size, "block-sizes-differ")
	buf := make([]byte, size+2*vfGuard)
	for i := range buf {
		buf[i] = 0xA5
	}
	block := buf[vfGuard : vfGuard+size] // cap reaches into the trailing guard
	copy(block, sp.ForwardBlock)
	full := false

	// forward
	for i := 0; i < hops; i++ {
		next, err := NextRotateSwitchBlock(block, sp.Hops[i].ReturnLabel)
		vf.Assert(err == nil, "fwd-rotate-error")
		vf.Assert(next == sp.Hops[i].ForwardLabel, "fwd-label-mismatch")
		if size > 0 && block[size-1] != 0 {
			full = true
		}
	}
	TransformToReturnBlock(block)
	for i := 0; i < size; i++ {
		vf.Assert(block[i] == sp.ReturnBlock[i], "return-block-mismatch")
	}
	// return
	for i := hops - 1; i >= 0; i-- {
		next, err := NextRotateSwitchBlock(block, sp.Hops[i].ForwardLabel)
		vf.Assert(err == nil, "ret-rotate-error")
		vf.Assert(next == sp.Hops[i].ReturnLabel, "ret-label-mismatch")
		if size > 0 && block[size-1] != 0 {
			full = true
		}
	}
	TransformToReturnBlock(block)
	for i := 0; i < size; i++ {
		vf.Assert(block[i] == sp.ForwardBlock[i], "forward-block-mismatch")
	}
	for i := 0; i < vfGuard; i++ {
		vf.Assert(buf[i] == 0xA5, "write-before-block")
		vf.Assert(buf[vfGuard+size+i] == 0xA5, "write-after-block")
	}
	vf.Assert(full, "block-size-not-minimal")
	vf.Reach("done")
}

// VfC12Size: for hop counts up to 101 (what a gossip announcement can carry)
// and arbitrary label values, CalculateBlockSize returns the true maximum
// window sum or an error, never a wrapped value, and BuildBlocks never panics.
func VfC12Size() {
	hops := 2 + vf.Choose(vf.Param("H")-1)
	sp := &SwitchPath{Hops: make([]SwitchHop, hops)}
	total := 0
	for i := 0; i < hops; i++ {
		if i < hops-1 {
			l := SwitchLabel(vf.U16())
			vf.Assume(l != 0)
			sp.Hops[i].ForwardLabel = l
		}
		if i > 0 {
			l := SwitchLabel(vf.U16())
			vf.Assume(l != 0)
			sp.Hops[i].ReturnLabel = l
		}
	}
	// reference: maximum over the rotation windows, computed in int
	sim := make([]int, hops*2-1)
	for i := 0; i < hops; i++ {
		sim[i] = sp.Hops[i].ForwardLabel.EncodedSize()
		sim[hops+i-1] = sp.Hops[i].ReturnLabel.EncodedSize()
	}
	for i := 0; i <= hops; i++ {
		s := 0
		for j := i; j < i+hops-1; j++ {
			s += sim[j]
		}
		if s > total {
			total = s
		}
	}
	size, err := sp.CalculateBlockSize()
	if err == nil {
		vf.Assert(size == total, "block-size-wrong")
	}
	vf.Assert(vfImplies12(total <= 255, err == nil), "fitting-path-refused")
	err = sp.BuildBlocks() // must not panic (nopanic harness)
	if err == nil {
		vf.Assert(len(sp.ForwardBlock) == total, "forward-block-size-wrong")
		vf.Reach("built")
	} else {
		vf.Reach("refused")
	}
}

func vfImplies12(a, b bool) bool { return !a || b }

// VfC12SizeBig: hop counts up to 101 with every label of one size class
// (symbolic values): BuildBlocks errors or builds a block of the true size,
// and never panics.
func VfC12SizeBig() {
	hops := 2 + vf.Choose(vf.Param("HB")-1)
	class := vf.Choose(3)
	sp := &SwitchPath{Hops: make([]SwitchHop, hops)}
	lab := func() SwitchLabel {
		l := SwitchLabel(vf.U16())
		switch class {
		case 0:
			vf.Assume(l >= 1 && l <= 127)
		case 1:
			vf.Assume(l >= 128 && l <= 16383)
		default:
			vf.Assume(l >= 16384)
		}
		return l
	}
	for i := 0; i < hops; i++ {
		if i < hops-1 {
			sp.Hops[i].ForwardLabel = lab()
		}
		if i > 0 {
			sp.Hops[i].ReturnLabel = lab()
		}
	}
	total := (hops - 1) * (class + 1)
	err := sp.BuildBlocks()
	if err == nil {
		vf.Assert(len(sp.ForwardBlock) == total, "forward-block-size-wrong")
		vf.Assert(total <= 255, "oversized-path-accepted")
		vf.Reach("built")
	} else {
		vf.Assert(total > 255, "fitting-path-refused")
		vf.Reach("refused")
	}
}
