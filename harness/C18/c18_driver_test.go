//go:build verif

package storage

import (
	"fmt"
	"net/netip"
	"os"
	"path/filepath"
	"testing"
)

// TestVfC18CrashDriver reproduces the crash window natively: it performs what
// Stop does up to a kill at byte offset k of the write of the state file (the
// offset comes from the solver's counterexample when available, else 0) and
// starts the storage again.
func TestVfC18CrashDriver(t *testing.T) {
	dir := t.TempDir()
	file := filepath.Join(dir, "state.json")
	// previous complete state
	s0, err := NewJSONFileStorage(file)
	if err != nil {
		t.Fatal(err)
	}
	s0.routers[netip.MustParseAddr("fd00::1")] = &StoredRouter{}
	if err := s0.Stop(); err != nil {
		t.Fatal(err)
	}
	old, _ := os.ReadFile(file)
	// new state, written by the real Stop into a scratch file to learn the bytes
	s1, _ := NewJSONFileStorage(file)
	s1.routers[netip.MustParseAddr("fd00::2")] = &StoredRouter{}
	scratch := filepath.Join(dir, "scratch.json")
	s1.filename = scratch
	if err := s1.Stop(); err != nil {
		t.Fatal(err)
	}
	data, _ := os.ReadFile(scratch)
	// does Stop write the state file in place? (then a kill after k bytes leaves data[:k])
	s1.filename = file
	before, _ := os.Stat(file)
	_ = before
	inPlace := true
	{
		// observe: run Stop for real and check whether a temp file + rename was used, by making the directory read-only for new files
		probe := filepath.Join(dir, "probe")
		os.Mkdir(probe, 0o755)
		pf := filepath.Join(probe, "state.json")
		os.WriteFile(pf, old, 0o644)
		os.Chmod(probe, 0o555) // no new directory entries: an in-place rewrite still works, temp+rename does not
		sp := &JSONFileStorage{filename: pf}
		sp.routers = s1.routers
		sp.mappings = s1.mappings
		errp := sp.Stop()
		os.Chmod(probe, 0o755)
		if os.Geteuid() == 0 {
			// root ignores directory permissions: fall back to looking for a leftover rename pattern
			ents, _ := os.ReadDir(probe)
			inPlace = len(ents) == 1 && errp == nil
			after, _ := os.ReadFile(pf)
			_ = after
			// decide by source behaviour: write a sentinel hard link; an in-place rewrite changes the link's content too
			link := filepath.Join(dir, "link.json")
			os.WriteFile(pf, old, 0o644)
			os.Remove(link)
			os.Link(pf, link)
			sp.Stop()
			viaLink, _ := os.ReadFile(link)
			inPlace = string(viaLink) != string(old)
		} else {
			inPlace = errp == nil
		}
	}
	if !inPlace {
		fmt.Println("VF-DRIVER: not-reproduced (state file is replaced atomically)")
		return
	}
	for _, k := range []int{0, 1, len(data) / 2, len(data) - 1} {
		os.WriteFile(file, data[:k], 0o644) // the kill after k bytes of the in-place rewrite
		if _, err := NewJSONFileStorage(file); err != nil {
			fmt.Printf("VF-DRIVER: reproduced router-refuses-to-start-after-crash (k=%d: %v)\n", k, err)
			return
		}
	}
	fmt.Println("VF-DRIVER: not-reproduced")
}
