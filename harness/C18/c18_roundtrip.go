//go:build verif

package storage

import (
	"net/netip"
	"time"

	"github.com/mycoria/mycoria/m"
	vf "github.com/mycoria/mycoria/zzvf"
)

func vfAddr18() netip.Addr {
	var a [16]byte
	copy(a[:], vf.Bytes(16))
	return netip.AddrFrom16(a)
}

// VfC18RoundTrip: a state assembled through the storage API (R routers, M
// mappings, deletions) is saved by Stop (no crash) and reloaded by
// NewJSONFileStorage: every stored router (address, public info, universe,
// offline flag, timestamps) and every mapping is there, nothing else is, and
// the API of the reloaded storage answers as the old one did. The JSON codec
// itself is idealised (what is marshalled is what a complete file unmarshals to).
func VfC18RoundTrip() {
	const file = "/state.json"
	s := &JSONFileStorage{filename: file}
	s.routers = map[netip.Addr]*StoredRouter{}
	s.mappings = map[string]StoredMapping{}
	R, M := vf.Param("R"), vf.Param("M")
	for i := 0; i < R; i++ {
		r := &StoredRouter{Address: &m.PublicAddress{IP: vfAddr18()}, Universe: "u", Offline: vf.Bool(), CreatedAt: vf.TimeSec()}
		if i == 0 { // optional parts vary on the first router only (keeps the path count in check)
			if vf.Bool() {
				r.Universe = ""
			}
			if vf.Bool() {
				r.PublicInfo = &m.RouterInfo{}
			}
			if vf.Bool() {
				t := vf.TimeSec()
				r.UsedAt = &t
			}
		}
		vf.Assert(s.SaveRouter(r) == nil, "save-router-failed")
		vf.Assert(s.routers[r.Address.IP] == r, "saved-router-not-stored")
	}
	names := []string{"a.myco", "b.myco"}
	for i := 0; i < M; i++ {
		mn, ma := names[vf.Choose(2)], vfAddr18()
		vf.Assert(s.SaveMapping(mn, ma) == nil, "save-mapping-failed")
		vf.Assert(s.mappings[mn].Router == ma && s.mappings[mn].Domain == mn, "saved-mapping-not-stored")
	}
	switch vf.Choose(3) {
	case 1:
		_ = s.DeleteRouter(vfAddr18())
	case 2:
		_ = s.DeleteMapping(names[vf.Choose(2)])
	}
	q, d := vfAddr18(), names[vf.Choose(2)]
	r0 := s.routers[q]
	m0, ok0 := s.mappings[d]
	nr, nm := len(s.routers), len(s.mappings)

	err := s.Stop()
	vf.Assume(!vfCrashed)
	vf.Assert(err == nil, "stop-failed-without-crash")
	s2, err := NewJSONFileStorage(file)
	vf.Assert(err == nil && s2 != nil, "reload-failed")
	if err != nil {
		return
	}
	vf.Assert(len(s2.routers) == nr && len(s2.mappings) == nm, "reloaded-state-has-different-size")
	r1 := s2.routers[q]
	vf.Assert((r0 == nil) == (r1 == nil), "router-lost-or-invented-by-reload")
	if r0 != nil && r1 != nil {
		vf.Assert(r1.Address != nil && r1.Address.IP == r0.Address.IP && r1.Address.IP == q, "router-address-changed")
		vf.Assert(r1.Universe == r0.Universe && r1.Offline == r0.Offline, "router-universe-or-offline-flag-changed")
		vf.Assert((r1.PublicInfo == nil) == (r0.PublicInfo == nil), "router-public-info-changed")
		vf.Assert(r1.CreatedAt.Equal(r0.CreatedAt) && r1.UpdatedAt.Equal(r0.UpdatedAt), "router-timestamps-changed")
		vf.Assert((r1.UsedAt == nil) == (r0.UsedAt == nil), "router-used-at-changed")
		vf.Reach("router-kept")
	}
	m1, ok1 := s2.mappings[d]
	vf.Assert(ok0 == ok1, "mapping-lost-or-invented-by-reload")
	if ok0 && ok1 {
		vf.Assert(m1.Domain == m0.Domain && m1.Router == m0.Router && m1.Created.Equal(m0.Created), "mapping-changed")
		vf.Reach("mapping-kept")
	}
	// the reloaded storage answers through its API as the old one did
	gr, gerr := s2.GetRouter(q)
	vf.Assert((gerr == nil) == (r0 != nil) && (gr != nil) == (r0 != nil), "reloaded-get-router-differs")
	ga, gerr2 := s2.GetMapping(d)
	vf.Assert((gerr2 == nil) == ok0, "reloaded-get-mapping-differs")
	if ok0 {
		vf.Assert(ga == m0.Router, "reloaded-mapping-address-differs")
	}
	vf.Assert(s2.Size() == nr+nm, "reloaded-size-differs")
	vf.Reach("done")
}

// VfC18Fields: ONE router and ONE mapping in which every field that can be
// populated generically (address with hash/type/key/easing, public info with
// version, listeners, IANA names and a public service, universe, offline flag,
// three timestamps; domain, router, creation time) is non-empty and symbolic,
// saved by Stop and reloaded by NewJSONFileStorage: the reloaded records equal
// the saved ones field by field. Which fields the codec keeps is decided from
// the real struct types of this tree (vf.JSONCopy); the comparison is
// type-directed too (vf.DeepEqual), so a field added later is covered.
func VfC18Fields() {
	const file = "/state.json"
	s := &JSONFileStorage{filename: file}
	s.routers = map[netip.Addr]*StoredRouter{}
	s.mappings = map[string]StoredMapping{}

	r := &StoredRouter{}
	vf.FillAny(r)
	r.Address.IP = vfAddr18()
	vf.Assert(s.SaveRouter(r) == nil, "save-router-failed")
	sm := StoredMapping{}
	vf.FillAny(&sm)
	sm.Domain, sm.Router = "a.myco", vfAddr18()
	s.mappings[sm.Domain] = sm

	// what the caller saved, kept aside (SaveRouter stores the pointer it is given)
	want := *r

	err := s.Stop()
	vf.Assume(!vfCrashed)
	vf.Assert(err == nil, "stop-failed-without-crash")
	s2, err := NewJSONFileStorage(file)
	vf.Assert(err == nil && s2 != nil, "reload-failed")
	if err != nil {
		return
	}
	got := s2.routers[want.Address.IP]
	vf.Assert(got != nil, "router-lost-by-reload")
	if got == nil {
		return
	}
	vf.Assert(got.Address != nil && got.Address.IP == want.Address.IP, "router-address-changed")
	vf.Assert(vf.DeepEqual(got.Address, want.Address), "router-key-material-changed-by-reload")
	vf.Assert(got.PublicInfo != nil && vf.DeepEqual(got.PublicInfo, want.PublicInfo), "router-public-info-changed-by-reload")
	vf.Assert(got.Universe == want.Universe && got.Offline == want.Offline, "router-universe-or-offline-flag-changed")
	vf.Assert(got.CreatedAt.Equal(want.CreatedAt) && got.UpdatedAt.Equal(want.UpdatedAt), "router-timestamps-changed")
	vf.Assert(got.UsedAt != nil && got.UsedAt.Equal(*want.UsedAt), "router-used-at-changed")
	vf.Assert(vf.DeepEqual(got, &want), "router-record-changed-by-reload")
	gm, ok := s2.mappings[sm.Domain]
	vf.Assert(ok, "mapping-lost-by-reload")
	vf.Assert(gm.Domain == sm.Domain && gm.Router == sm.Router && gm.Created.Equal(sm.Created), "mapping-changed-by-reload")
	vf.Assert(vf.DeepEqual(&gm, &sm), "mapping-record-changed-by-reload")
	vf.Assert(len(s2.routers) == 1 && len(s2.mappings) == 1, "reloaded-state-has-different-size")
	vf.Reach("all-fields-kept")
}

// VfC18SecondRun: a later run of the router. The state file was written by an
// earlier run (real Stop on a state of two routers, one of them used, and a
// mapping); this run loads it with the real loader, then does ANY sequence of K
// storage operations - GetRouter (which stamps UsedAt), Prune, SaveRouter,
// DeleteRouter, SaveMapping, DeleteMapping - and shuts down (no crash). The
// next start must find exactly what was in memory at shutdown: every router
// record (including the UsedAt stamps and the effect of pruning) and mapping.
func VfC18SecondRun() {
	const file = "/state.json"
	K := vf.Param("K")
	a1, a2 := vfAddr18(), vfAddr18()
	vf.Assume(a1 != a2)
	{
		s0 := &JSONFileStorage{filename: file}
		s0.routers = map[netip.Addr]*StoredRouter{}
		s0.mappings = map[string]StoredMapping{}
		if vf.Bool() {
			used := vf.TimeSec()
			_ = s0.SaveRouter(&StoredRouter{Address: &m.PublicAddress{IP: a1}, Universe: "u", CreatedAt: vf.TimeSec(), UsedAt: &used})
			_ = s0.SaveRouter(&StoredRouter{Address: &m.PublicAddress{IP: a2}, Universe: "u", CreatedAt: vf.TimeSec()})
			_ = s0.SaveMapping("a.myco", a1)
		} else {
			// the earlier run saw no other router and learned no name: it saved an EMPTY state
			// (with omitempty the file is just "{}" and decodes to nil maps)
			vf.Reach("earlier-run-saved-empty-state")
		}
		vfNoKill = true
		err := s0.Stop()
		vf.Assume(!vfCrashed)
		vf.Assert(err == nil, "stop-failed-without-crash")
	}
	s, err := NewJSONFileStorage(file)
	vf.Assert(err == nil && s != nil, "reload-failed")
	if err != nil {
		return
	}
	addrs := []netip.Addr{a1, a2}
	for k := 0; k < K; k++ {
		a := addrs[vf.Choose(2)]
		switch vf.Choose(7) {
		case 0:
			_, _ = s.GetRouter(a)
		case 1:
			s.Prune(vf.Choose(3))
		case 2:
			_ = s.SaveRouter(&StoredRouter{Address: &m.PublicAddress{IP: a}, Universe: "v", Offline: vf.Bool()})
		case 3:
			_ = s.DeleteRouter(a)
		case 4:
			_ = s.SaveMapping([]string{"a.myco", "b.myco"}[vf.Choose(2)], a)
		case 5:
			_ = s.DeleteMapping([]string{"a.myco", "b.myco"}[vf.Choose(2)])
		default:
			// nothing happens in this slot
		}
	}
	// what is in memory at shutdown
	type snap struct {
		has bool
		rec StoredRouter
		use bool
		at  time.Time
	}
	var want [2]snap
	for i, a := range addrs {
		if r := s.routers[a]; r != nil {
			want[i] = snap{has: true, rec: *r}
			if r.UsedAt != nil {
				want[i].use, want[i].at = true, *r.UsedAt
			}
		}
	}
	ma, hasA := s.mappings["a.myco"]
	mb, hasB := s.mappings["b.myco"]
	nr, nm := len(s.routers), len(s.mappings)

	err = s.Stop()
	vf.Assume(!vfCrashed)
	vf.Assert(err == nil, "stop-failed-without-crash")
	s2, err := NewJSONFileStorage(file)
	vf.Assert(err == nil && s2 != nil, "reload-failed")
	if err != nil {
		return
	}
	vf.Assert(len(s2.routers) == nr && len(s2.mappings) == nm, "reloaded-state-differs-from-state-at-shutdown")
	for i, a := range addrs {
		got := s2.routers[a]
		vf.Assert((got != nil) == want[i].has, "router-lost-or-resurrected-by-reload")
		if got != nil && want[i].has {
			vf.Assert(got.Universe == want[i].rec.Universe && got.Offline == want[i].rec.Offline, "router-universe-or-offline-flag-changed")
			vf.Assert(got.CreatedAt.Equal(want[i].rec.CreatedAt) && got.UpdatedAt.Equal(want[i].rec.UpdatedAt), "router-timestamps-changed")
			vf.Assert((got.UsedAt != nil) == want[i].use, "router-used-at-changed")
			if got.UsedAt != nil && want[i].use {
				vf.Assert(got.UsedAt.Equal(want[i].at), "router-used-at-changed")
			}
			vf.Reach("router-kept")
		}
	}
	ga, gotA := s2.mappings["a.myco"]
	gb, gotB := s2.mappings["b.myco"]
	vf.Assert(gotA == hasA && gotB == hasB, "mapping-lost-or-resurrected-by-reload")
	if hasA && gotA {
		vf.Assert(ga.Router == ma.Router && ga.Created.Equal(ma.Created), "mapping-changed")
	}
	if hasB && gotB {
		vf.Assert(gb.Router == mb.Router && gb.Created.Equal(mb.Created), "mapping-changed")
	}
	vf.Reach("done")
}
