//go:build verif

package storage

import (
	"errors"
	"net/netip"
	"os"

	vf "github.com/mycoria/mycoria/zzvf"
)

// ---- file-system model: a crash is a write that stops after k bytes; after
// it no further file operation has any effect (the process is dead) ----

var (
	vfFiles   = map[string][]byte{}
	vfCrashed bool
	errCrash  = errors.New("vf: process killed")
)

func vfWriteFile(name string, data []byte, perm os.FileMode) error {
	if vfCrashed {
		return errCrash
	}
	k := vf.Int()
	vf.Assume(k >= 0 && k <= len(data))
	vfFiles[name] = data[:k] // O_TRUNC then k bytes reach the disk
	if k < len(data) {
		vfCrashed = true
		vf.Event("crash")
		return errCrash
	}
	return nil
}

func vfReadFile(name string) ([]byte, error) {
	d, ok := vfFiles[name]
	if !ok {
		return nil, os.ErrNotExist
	}
	return d, nil
}

func vfRename(oldpath, newpath string) error {
	if vfCrashed {
		return errCrash
	}
	if vf.Bool() { // killed just before the (atomic) rename
		vfCrashed = true
		vf.Event("crash")
		return errCrash
	}
	d, ok := vfFiles[oldpath]
	if !ok {
		return os.ErrNotExist
	}
	vfFiles[newpath] = d
	delete(vfFiles, oldpath)
	return nil
}

func vfRemove(name string) error {
	if vfCrashed {
		return errCrash
	}
	delete(vfFiles, name)
	return nil
}

// ---- JSON model: Marshal yields an opaque token of arbitrary length >= 2;
// Unmarshal succeeds exactly on a complete token and yields the marshalled value ----

type vfToken struct {
	data []byte
	val  *JSONStorageFormat
}

var vfTokens []vfToken

func vfJSONMarshal(v any) ([]byte, error) {
	n := vf.Int()
	vf.Assume(n >= 2 && n <= 1<<20)
	tok := vf.FreshBytes(n)
	vfTokens = append(vfTokens, vfToken{tok, v.(*JSONStorageFormat)})
	return tok, nil
}

func vfJSONUnmarshal(data []byte, v any) error {
	for _, t := range vfTokens {
		if vf.SameObject(data, t.data) && len(data) == len(t.data) {
			*(v.(*JSONStorageFormat)) = *t.val
			return nil
		}
	}
	return errors.New("unexpected end of JSON input")
}

// VfC18Crash: the state file holds a complete previous state; Stop runs and
// the process is killed at an arbitrary byte offset of any write (or never);
// the next start must succeed and load the complete previous or the complete
// new state.
func VfC18Crash() {
	const file = "/state.json"
	oldVal := &JSONStorageFormat{Routers: map[netip.Addr]*StoredRouter{netip.Addr{}: nil}, Mappings: map[string]StoredMapping{}}
	oldTok, _ := vfJSONMarshal(oldVal)
	vfFiles[file] = oldTok

	s := &JSONFileStorage{filename: file}
	s.routers = map[netip.Addr]*StoredRouter{netip.Addr{}: nil, netip.IPv6Loopback(): nil}
	s.mappings = map[string]StoredMapping{}
	err := s.Stop()
	vf.Assert(vfCrashed || err == nil, "stop-failed-without-crash")

	// next start: a new process
	vfCrashed = false
	s2, err := NewJSONFileStorage(file)
	vf.Assert(err == nil && s2 != nil, "router-refuses-to-start-after-crash")
	if err != nil {
		return
	}
	n := len(s2.routers)
	vf.Assert(n == 1 || n == 2, "loaded-neither-old-nor-new-state")
	if n == 1 {
		vf.Reach("old-state")
	} else {
		vf.Reach("new-state")
	}
}
