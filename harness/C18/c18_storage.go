//go:build verif

package storage

import (
	"errors"
	"net/netip"
	"os"

	"github.com/mycoria/mycoria/m"
	vf "github.com/mycoria/mycoria/zzvf"
)

// ---- file-system model. A file is a sequence of segments (slices of written
// buffers). A crash is a write that stops after k bytes; after it no further
// file operation has any effect (the process is dead). ----

type vfFile struct{ segs [][]byte }

var (
	vfFiles   = map[string]*vfFile{}
	vfCrashed bool
	errCrash  = errors.New("vf: process killed")
	vfOpen    = map[*os.File]*vfHandle{}
)

type vfHandle struct {
	name string
	pos  int // only sequential writes from the start are modelled
}

func vfKill() error {
	vfCrashed = true
	vf.Event("crash")
	return errCrash
}

func vfWriteFile(name string, data []byte, perm os.FileMode) error {
	if vfCrashed {
		return errCrash
	}
	f := &vfFile{} // O_TRUNC
	vfFiles[name] = f
	k := vf.Int()
	vf.Assume(k >= 0 && k <= len(data))
	if k > 0 {
		f.segs = [][]byte{data[:k]}
	}
	if k < len(data) {
		return vfKill()
	}
	return nil
}

func vfOpenFile(name string, flag int, perm os.FileMode) (*os.File, error) {
	if vfCrashed {
		return nil, errCrash
	}
	f, ok := vfFiles[name]
	if !ok {
		if flag&os.O_CREATE == 0 {
			return nil, os.ErrNotExist
		}
		f = &vfFile{}
		vfFiles[name] = f
	}
	if flag&os.O_TRUNC != 0 {
		f.segs = nil
	}
	h := new(os.File)
	vfOpen[h] = &vfHandle{name: name}
	return h, nil
}

func vfFileWrite(h *os.File, b []byte) (int, error) {
	if vfCrashed {
		return 0, errCrash
	}
	hd := vfOpen[h]
	f := vfFiles[hd.name]
	k := vf.Int()
	vf.Assume(k >= 0 && k <= len(b))
	if hd.pos != 0 || len(f.segs) > 1 {
		vf.Stop() // outside the model: only one sequential write from offset 0 over at most one old segment
	}
	var segs [][]byte
	if k > 0 {
		segs = append(segs, b[:k])
	}
	if len(f.segs) == 1 && len(f.segs[0]) > k {
		segs = append(segs, f.segs[0][k:]) // bytes of the old content beyond what was overwritten survive
	}
	f.segs = segs
	hd.pos += k
	if k < len(b) {
		return k, vfKill()
	}
	return k, nil
}

func vfFileSync(h *os.File) error {
	if vfCrashed {
		return errCrash
	}
	if vf.Bool() {
		return vfKill()
	}
	return nil
}

func vfFileClose(h *os.File) error { return nil }

func vfReadFile(name string) ([]byte, error) {
	f, ok := vfFiles[name]
	if !ok {
		return nil, os.ErrNotExist
	}
	if len(f.segs) == 0 {
		return []byte{}, nil
	}
	if len(f.segs) == 1 {
		return f.segs[0], nil
	}
	// several segments: some mixture of buffers; certainly not one complete token
	n := 0
	for _, s := range f.segs {
		n += len(s)
	}
	return vf.FreshBytes(n), nil
}

var vfNoKill bool

// vfStat: os.Stat on the model (only existence matters).
func vfStat(name string) (os.FileInfo, error) {
	if _, ok := vfFiles[name]; !ok {
		return nil, os.ErrNotExist
	}
	return nil, nil
}

func vfRename(oldpath, newpath string) error {
	if vfCrashed {
		return errCrash
	}
	if !vfNoKill && vf.Bool() { // killed just before the (atomic) rename
		return vfKill()
	}
	d, ok := vfFiles[oldpath]
	if !ok {
		return os.ErrNotExist
	}
	vfFiles[newpath] = d
	delete(vfFiles, oldpath)
	return nil
}

func vfRemove(name string) error {
	if vfCrashed {
		return errCrash
	}
	delete(vfFiles, name)
	return nil
}

// ---- JSON model: Marshal yields an opaque token of arbitrary length >= 2;
// Unmarshal succeeds exactly on a complete token and yields the marshalled value ----

type vfToken struct {
	data []byte
	val  *JSONStorageFormat
}

var vfTokens []vfToken

func vfJSONMarshal(v any) ([]byte, error) {
	// what a decoder will get back is decided now, from the real types (tags, exported
	// fields, name conflicts, key kinds): vf.JSONCopy; it also builds new objects, so that
	// what the loader does to the loaded state is not mistaken for a property of the saved one
	out := &JSONStorageFormat{}
	if !vf.JSONCopy(out, v.(*JSONStorageFormat)) {
		return nil, errors.New("json: unsupported type")
	}
	n := vf.Int()
	vf.Assume(n >= 2 && n <= 1<<20)
	tok := vf.FreshBytes(n)
	vfTokens = append(vfTokens, vfToken{tok, out})
	return tok, nil
}

func vfJSONUnmarshal(data []byte, v any) error {
	for _, t := range vfTokens {
		if vf.SameObject(data, t.data) && len(data) == len(t.data) {
			out := v.(*JSONStorageFormat)
			// a second decode of the same file must not share objects with the first
			if !vf.JSONCopy(out, t.val) {
				return errors.New("json: unsupported type")
			}
			return nil
		}
	}
	return errors.New("unexpected end of JSON input")
}

// VfC18Crash: the state file holds a complete previous state; Stop runs and
// the process is killed at an arbitrary byte offset of any write (or never);
// the next start must succeed and load the complete previous or the complete
// new state.
// VfCrashScenario: the state file may hold a complete previous state, a stale
// temporary file may exist, Stop runs for a new (possibly empty) state and the
// process is killed at an arbitrary byte offset of any write, or never. On
// return the model is a freshly started process over the files left behind.
func VfCrashScenario(file string) (hadOld, newEmpty bool) {
	hadOld = vf.Bool() // a previous complete state exists, or this is the very first shutdown
	if hadOld {
		oldVal := &JSONStorageFormat{Routers: map[netip.Addr]*StoredRouter{netip.Addr{}: nil}, Mappings: map[string]StoredMapping{}}
		oldTok, _ := vfJSONMarshal(oldVal)
		vfFiles[file] = &vfFile{segs: [][]byte{oldTok}}
	}
	if vf.Bool() {
		// a stale temporary file from an earlier killed shutdown: a prefix of some older serialisation
		staleTok, _ := vfJSONMarshal(&JSONStorageFormat{})
		k := vf.Int()
		vf.Assume(k >= 1 && k < len(staleTok))
		vfFiles[file+".tmp"] = &vfFile{segs: [][]byte{staleTok[:k]}}
	}

	// this run: the router started from whatever was there (real loader), changed its state
	// through the storage API, and now shuts down
	vfNoKill = true
	s, lerr := NewJSONFileStorage(file)
	vfNoKill = false
	vf.Assert(lerr == nil && s != nil, "router-refuses-to-start")
	if lerr != nil {
		vf.Stop()
	}
	newEmpty = vf.Bool() // the state being saved may be empty (all routers pruned, no mappings)
	if newEmpty {
		for ip := range s.routers {
			_ = s.DeleteRouter(ip)
		}
		if !hadOld {
			// nothing was there and nothing is: still a shutdown (the API was used)
			_ = s.DeleteRouter(netip.IPv6Loopback())
		}
	} else {
		// two routers in the new state (one of them replaces the old run's entry, if any)
		_ = s.SaveRouter(&StoredRouter{Address: &m.PublicAddress{IP: netip.Addr{}}})
		_ = s.SaveRouter(&StoredRouter{Address: &m.PublicAddress{IP: netip.IPv6Loopback()}})
	}
	err := s.Stop()
	vf.Assert(vfCrashed || err == nil, "stop-failed-without-crash")

	// next start: a new process; nothing kills it
	vfCrashed = false
	vfNoKill = true
	return hadOld, newEmpty
}

// VfC18Crash: after the scenario above the next start must succeed and load
// the complete previous or the complete new state.
func VfC18Crash() {
	const file = "/state.json"
	hadOld, newEmpty := VfCrashScenario(file)
	s2, err := NewJSONFileStorage(file)
	vf.Assert(err == nil && s2 != nil, "router-refuses-to-start-after-crash")
	if err != nil {
		return
	}
	n := len(s2.routers)
	switch {
	case hadOld && newEmpty:
		vf.Assert(n == 1 || n == 0, "loaded-neither-old-nor-new-state")
	case hadOld:
		vf.Assert(n == 1 || n == 2, "loaded-neither-old-nor-new-state")
	case newEmpty:
		vf.Assert(n == 0, "loaded-neither-empty-nor-new-state")
	default:
		vf.Assert(n == 0 || n == 2, "loaded-neither-empty-nor-new-state")
	}
	switch n {
	case 0:
		vf.Reach("empty-state")
	case 1:
		vf.Reach("old-state")
	default:
		vf.Reach("new-state")
	}
}
