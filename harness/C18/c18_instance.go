//go:build verif

package mycoria

import (
	"github.com/mycoria/mycoria/config"
	"github.com/mycoria/mycoria/m"
	"github.com/mycoria/mycoria/state"
	"github.com/mycoria/mycoria/storage"
	vf "github.com/mycoria/mycoria/zzvf"
)

func vfIdentity18(s m.AddressStorage) (*m.Address, error) { return &m.Address{}, nil }

// vfStateNew18 stands for everything New does after the state storage was
// loaded: reaching it means the router did not refuse to start over the files
// a killed shutdown left behind.
func vfStateNew18(inst any, store storage.Storage) *state.State {
	vf.Reach("storage-loaded")
	vf.Stop()
	return nil
}

// VfC18InstanceStart: the crash scenario of VfC18Crash, followed by the
// start-up code of the instance itself (New, up to and including loading the
// state storage): it must not fail.
func VfC18InstanceStart() {
	const file = "/state.json"
	storage.VfCrashScenario(file)
	cfg := &config.Config{}
	cfg.System.StatePath = file
	cfg.System.DisableTun = true
	_, err := New("vf", cfg)
	vf.Assert(err == nil, "router-refuses-to-start-after-crash")
}
