#!/bin/bash
# usage: seedone.sh <prop> <n> [check-id] [extra vfcheck args]: apply candidate n of <prop> in its scratch worktree, run a quick check against it, undo
p=$1; n=$2; chk=${3:-$p}; shift; shift; shift
wt=/tmp/wt_$p; sd=/tmp/seed_$p
cd $wt && git checkout -q -- . && git clean -fdq && git apply $sd/patch_$n.diff || { echo "$p-$n APPLY-FAIL"; exit 2; }
s=$(date +%s)
out=$(cd /verif && VERIF_REPO=$wt timeout 3000 ./vfcheck $chk quick "$@" 2>&1); code=$?
git checkout -q -- . && git clean -fdq
echo "$p-$n check=$chk exit=$code $(( $(date +%s) - s ))s :: $(echo "$out" | grep -E '^violation|^INCONCLUSIVE|^KNOWN' | sed 's/msg=.*//' | head -4 | cut -c1-160 | tr '\n' '|')"
