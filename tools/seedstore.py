#!/usr/bin/env python3
"""Store the confirmed round-4 candidates (/tmp/seed_<prop>/) under /verif/seeded/<prop>-<k>/.
usage: seedstore.py <prop> [<n>=<detected_by text> ...]   (n without text = take from result file)"""
import json, os, re, sys, shutil, glob
V='/verif'
prop=sys.argv[1]
notes=dict(a.split('=',1) for a in sys.argv[2:])
sd=f'/tmp/seed_{prop}'
existing=[int(os.path.basename(d).split('-')[1]) for d in glob.glob(f'{V}/seeded/{prop}-*')]
nxt=max(existing+[0])+1
for n in ('1','2','3'):
    pf=f'{sd}/patch_{n}.diff'
    if not os.path.exists(pf): continue
    res=open(f'{sd}/result_{n}.txt').read() if os.path.exists(f'{sd}/result_{n}.txt') else ''
    m=re.search(r'clean=\[(.*?)\] build=\[(.*?)\] patched=\[(.*?)\] suite-nonok=\[(.*?)\]',res,re.S)
    if not m or not m.group(1).startswith('ok') or m.group(2).strip() or 'FAIL' not in m.group(3):
        print(f'{prop} candidate {n}: NOT CONFIRMED -> skipped ({res[:200]!r})'); continue
    suite=m.group(4).strip()
    bad=[x for x in re.findall(r'FAIL\s+(github\S+)',suite) if x not in ('github.com/mycoria/mycoria/m','github.com/mycoria/mycoria/mgr')]
    if bad:
        print(f'{prop} candidate {n}: suite not clean ({suite}) -> skipped'); continue
    meta=json.load(open(f'{sd}/meta_{n}.json'))
    sid=f'{prop}-{nxt}'; nxt+=1
    d=f'{V}/seeded/{sid}'; os.makedirs(d,exist_ok=True)
    shutil.copy(pf,f'{d}/patch.diff'); shutil.copy(f'{sd}/demo_{n}_test.go',f'{d}/demo_test.go')
    first='detected (VIOLATION) by the quick check of its property on the first run' if re.search(r'exit=1 .*VIOLATION',res) else 'NOT detected on the first run'
    out={"id":sid,"round":4,"breaks_property":prop,
     "what_changed":meta.get('what_changed',''),
     "needs_to_manifest":meta.get('needs_to_manifest',''),
     "files_changed":meta.get('files_changed',[]),
     "demo_package_dir":meta.get('pkgdir','.'),
     "confirmed":"tools/seed4.sh in a scratch worktree: demo passes on the clean tree, patch builds, full suite passes (pre-existing flakes m.TestTable / mgr.TestTaskRepeat aside), demo fails with the patch",
     "check_run":"patch applied in the scratch worktree, VERIF_REPO=<worktree> ./vfcheck %s quick"%prop,
     "first_run":first,
     "detected_by":notes.get(n, 'quick check of '+prop if 'NOT' not in first else 'not detected'),
     "author":"independent sub-agent given only the property text and a scratch worktree"}
    json.dump(out,open(f'{d}/meta.json','w'),indent=1)
    print('stored',sid,'|',first,'|',out['detected_by'])
