#!/bin/bash
# usage: seedfinal.sh <prop> <n> [extra vfcheck args]: final confirmation of one round-5 candidate on /repo's HEAD:
# worktree /tmp/wt_<prop> (already at HEAD), demo passes clean, patch applies+builds, suite passes, demo fails,
# then the quick check of the property (optionally restricted with -only) against the patched worktree.
export PATH=/opt/veriftools/go1.26.8/bin:$PATH GOFLAGS=-mod=mod GOPROXY=off GOTOOLCHAIN=local
p=$1; n=$2; shift; shift
wt=/tmp/wt_$p; sd=/tmp/seed_$p
dir=$(python3 -c "import json;print(json.load(open('$sd/meta_$n.json')).get('pkgdir','.'))" 2>/dev/null || echo .)
dir=${dir#./}; dir=${dir%/}
cd $wt || exit 2
git checkout -q -- . && git clean -fdq
cp $sd/demo_${n}_test.go $dir/zz_demo_${n}_test.go
clean=$(go test -vet=off -count=1 ./$dir/ -run 'ZZDemo' 2>&1 | tail -1)
if ! git apply $sd/patch_$n.diff; then echo "$p-$n APPLY-FAIL" | tee $sd/result_$n.txt; git checkout -q -- . ; git clean -fdq; exit 1; fi
build=$(go build ./... 2>&1 | tail -1)
patched=$(go test -vet=off -count=1 ./$dir/ -run 'ZZDemo' 2>&1 | tail -1)
rm $dir/zz_demo_${n}_test.go
suite=$(go test -vet=off -count=1 ./... 2>&1 | grep -v "no test files" | grep -v "^ok" | grep -v "^---\|^    \|^FAIL$\|^$" | tr '\n' ' ' | cut -c1-300)
s=$(date +%s)
out=$(cd /verif && VERIF_REPO=$wt timeout 3000 ./vfcheck $p quick "$@" 2>&1); code=$?
e=$(( $(date +%s) - s ))
git checkout -q -- . && git clean -fdq
echo "$p-$n clean=[$clean] build=[$build] patched=[$patched] suite-nonok=[$suite] check=$p exit=$code ${e}s args=[$*] head=$(git rev-parse --short HEAD) :: $(echo "$out" | grep -E '^violation|^VIOLATION|^INCONCLUSIVE' | sed 's/msg=.*//' | head -6 | cut -c1-200 | tr '\n' '|')" | tee $sd/result_$n.txt
