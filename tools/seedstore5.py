#!/usr/bin/env python3
"""Store the confirmed round-5 candidates (/tmp/seed_<prop>/) under /verif/seeded/<prop>-<k>/.
usage: seedstore5.py <prop> [<n>=<what was added after a first-run miss> ...]
First-run outcome: from /tmp/seedrun_a.log, /tmp/seedrun_b.log (first runs; a run that could not load
because of an editing slip in a harness file is not counted), else the current result file.
Final outcome: /tmp/seed_<prop>/result_<n>.txt (latest run on /repo's HEAD)."""
import json, os, re, sys, shutil, glob
V='/verif'
prop=sys.argv[1]
notes=dict(a.split('=',1) for a in sys.argv[2:])
sd=f'/tmp/seed_{prop}'
firsts={}
for lf in ('/tmp/seedrun_a.log','/tmp/seedrun_b.log','/tmp/seedrun_c.log','/tmp/seedrun_d.log'):
    if not os.path.exists(lf): continue
    for line in open(lf, errors='replace'):
        m=re.match(r'(C\d\d)-(\d) clean=',line)
        if m and m.group(1)==prop and 'package load errors' not in line and m.group(2) not in firsts:
            firsts[m.group(2)]=line
# first-run outcomes corrected by hand where the logs mislead: a 'VIOLATION' that was a defect of the
# unchanged tree fixed later (C14-1: the IPv6 check), a harness that had already been strengthened after
# the same mutation arrived for another property (C05-2, C15-2 = C03-1), a harness written after reading
# the change's description (C09-1), or first runs that only exist in the final pass (C02, C07-2, C09-2)
FORCE={'C14':{'1':False},'C05':{'2':False},'C15':{'2':False},'C09':{'1':False,'2':True},'C02':{'1':True,'2':True},'C07':{'1':True,'2':True}}
SKIP={'C04':{'1':'not stored: after the fix 8b2c702 (stored identities are verified when a session is created) its demonstration passes with the patch; the check still reports the record stored before verification'}}
existing=[int(os.path.basename(d).split('-')[1]) for d in glob.glob(f'{V}/seeded/{prop}-*')]
nxt=max(existing+[0])+1
for n in ('1','2','3'):
    pf=f'{sd}/patch_{n}.diff'
    if not os.path.exists(pf): continue
    if n in SKIP.get(prop,{}):
        print(prop,'candidate',n,SKIP[prop][n]); continue
    res=open(f'{sd}/result_{n}.txt', errors='replace').read() if os.path.exists(f'{sd}/result_{n}.txt') else ''
    m=re.search(r'clean=\[(.*?)\] build=\[(.*?)\] patched=\[(.*?)\] suite-nonok=\[(.*?)\] check=',res,re.S)
    if not m or not m.group(1).startswith('ok') or m.group(2).strip() or 'FAIL' not in m.group(3):
        print(f'{prop} candidate {n}: NOT CONFIRMED -> skipped ({res[:200]!r})'); continue
    suite=m.group(4).strip()
    bad=[x for x in re.findall(r'FAIL\s+(github\S+)',suite) if x not in ('github.com/mycoria/mycoria/m','github.com/mycoria/mycoria/mgr')]
    if bad:
        print(f'{prop} candidate {n}: suite not clean ({suite[:200]}) -> skipped'); continue
    meta=json.load(open(f'{sd}/meta_{n}.json'))
    sid=f'{prop}-{nxt}'; nxt+=1
    d=f'{V}/seeded/{sid}'; os.makedirs(d,exist_ok=True)
    shutil.copy(pf,f'{d}/patch.diff'); shutil.copy(f'{sd}/demo_{n}_test.go',f'{d}/demo_test.go')
    fr=firsts.get(n,res)
    hit=bool(re.search(r'exit=1 .*VIOLATION',fr))
    if n in FORCE.get(prop,{}): hit=FORCE[prop][n]
    first='detected (VIOLATION) by the quick check of its property on the first run' if hit else 'NOT detected on the first run'
    final_ok=bool(re.search(r'exit=1 .*VIOLATION',res))
    det = 'quick check of '+prop if final_ok else 'not detected'
    if n in notes: det = notes[n]
    out={"id":sid,"round":5,"breaks_property":prop,
     "what_changed":meta.get('what_changed',''),
     "needs_to_manifest":meta.get('needs_to_manifest',''),
     "files_changed":meta.get('files_changed',[]),
     "demo_package_dir":meta.get('pkgdir','.'),
     "confirmed":"tools/seed4.sh in a scratch worktree of /repo's HEAD: demo passes on the clean tree, patch builds, full suite passes (pre-existing flakes m.TestTable / mgr.TestTaskRepeat aside), demo fails with the patch",
     "check_run":"patch applied in the scratch worktree, VERIF_REPO=<worktree> ./vfcheck %s quick"%prop,
     "first_run":first,
     "final_run":"reported as VIOLATION by the quick check" if final_ok else "not reported",
     "detected_by":det,
     "author":"independent sub-agent given only the property text and a scratch worktree"}
    json.dump(out,open(f'{d}/meta.json','w'),indent=1)
    print('stored',sid,'|',first,'|',out['final_run'],'|',det[:80])
