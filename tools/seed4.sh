#!/bin/bash
# usage: seed4.sh <prop> [check-id] : confirm the round-4 candidates of one property in its scratch
# worktree (/tmp/wt_<prop>, candidates in /tmp/seed_<prop>) and run the property's quick check on each
export PATH=/opt/veriftools/go1.26.8/bin:$PATH GOFLAGS=-mod=mod GOPROXY=off GOTOOLCHAIN=local
p=$1; chk=${2:-$p}; wt=/tmp/wt_$p; sd=/tmp/seed_$p
for n in 1 2 3; do
  [ -f $sd/patch_$n.diff ] || continue
  dir=$(python3 -c "import json;print(json.load(open('$sd/meta_$n.json')).get('pkgdir','.'))" 2>/dev/null || echo .)
  dir=${dir#./}; dir=${dir%/}
  cd $wt || exit 2
  git checkout -q -- . && git clean -fdq
  cp $sd/demo_${n}_test.go $dir/zz_demo_${n}_test.go
  clean=$(go test -vet=off -count=1 ./$dir/ -run 'ZZDemo' 2>&1 | tail -1)
  if ! git apply $sd/patch_$n.diff; then echo "$p-$n APPLY-FAIL" | tee $sd/result_$n.txt; git checkout -q -- . ; git clean -fdq; continue; fi
  build=$(go build ./... 2>&1 | tail -1)
  patched=$(go test -vet=off -count=1 ./$dir/ -run 'ZZDemo' 2>&1 | tail -1)
  rm $dir/zz_demo_${n}_test.go
  suite=$(go test -vet=off -count=1 ./... 2>&1 | grep -v "no test files" | grep -v "^ok" | grep -v "^---\|^    \|^FAIL$\|^$" | tr '\n' ' ' | cut -c1-300)
  s=$(date +%s)
  out=$(cd /verif && VERIF_REPO=$wt timeout 3000 ./vfcheck $chk quick 2>&1); code=$?
  e=$(( $(date +%s) - s ))
  git checkout -q -- . && git clean -fdq
  echo "$p-$n clean=[$clean] build=[$build] patched=[$patched] suite-nonok=[$suite] check=$chk exit=$code ${e}s :: $(echo "$out" | grep -E '^VIOLATION|^INCONCLUSIVE|^KNOWN' | head -3 | cut -c1-200 | tr '\n' '|')" | tee $sd/result_$n.txt
done
