#!/bin/bash
# Translator validation: witness harnesses whose counterexamples must reproduce on the native build.
cd "$(dirname "$0")/.." && exec ./vfcheck SELF quick "$@"
