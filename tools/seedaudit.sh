#!/bin/bash
# usage: seedaudit.sh <worktree-at-HEAD>: for every stored seeded change: the patch applies to HEAD and the
# demonstration still passes on the clean tree (fixes made since may have changed what a demonstration relies on)
export PATH=/opt/veriftools/go1.26.8/bin:$PATH GOFLAGS=-mod=mod GOPROXY=off GOTOOLCHAIN=local
wt=$1; cd $wt || exit 2
for d in /verif/seeded/*/; do
  id=$(basename $d)
  dir=$(python3 -c "import json;m=json.load(open('$d/meta.json'));print(m.get('demo_package_dir') or m.get('pkgdir') or '.')" 2>/dev/null || echo .)
  dir=${dir#./}; dir=${dir%/}; [ -z "$dir" ] && dir=.
  git checkout -q -- . && git clean -fdq
  ap=ok; git apply --check $d/patch.diff 2>/dev/null || ap=NOAPPLY
  cp $d/demo_test.go $dir/zz_demo_audit_test.go
  r=$(timeout 600 go test -vet=off -count=1 ./$dir/ -run 'Demo|demo|ZZ' 2>&1 | tail -1 | cut -c1-60)
  rm -f $dir/zz_demo_audit_test.go
  echo "$id apply=$ap clean=[$r]"
done
git checkout -q -- . && git clean -fdq
