#!/bin/bash
# usage: runall.sh [tier]: run every registered check, one summary line each
cd /verif; tier=${1:-quick}
for p in $(python3 -c "import json;print(' '.join(c['property_id'] for c in json.load(open('MANIFEST.json'))['checks']))"); do
  s=$(date +%s); out=$(timeout 3600 ./vfcheck $p $tier 2>&1); code=$?; e=$(( $(date +%s) - s ))
  echo "$p exit=$code ${e}s $(echo "$out" | grep -E '^VIOLATION|^INCONCLUSIVE|^KNOWN' | head -2 | cut -c1-120 | tr '\n' '|')"
done
