#!/bin/bash
# usage: seedrun.sh <patchfile> <check> [tier] : apply a seeded change to /repo, run one check, undo
patch=$1; chk=$2; tier=${3:-quick}
cd /repo && git apply $patch || { echo "APPLY-FAIL $patch"; exit 2; }
out=$(cd /verif && timeout 3000 ./vfcheck $chk $tier 2>&1)
code=$?
git -C /repo checkout -- .
echo "$(basename $(dirname $patch))/$(basename $patch) check=$chk exit=$code :: $(echo "$out" | grep -E "^VIOLATION|^INCONCLUSIVE|^KNOWN|^OK" | head -3 | cut -c1-160 | tr '\n' '|')"
