#!/usr/bin/env python3
"""Regenerates /verif/MANIFEST.json from the table below (single source of truth)."""
import json, os
V = os.path.dirname(os.path.dirname(os.path.abspath(__file__)))
props = [json.loads(l)['id'] for l in open(os.path.join(V, 'properties.jsonl'))]
TECH = "SMT-based symbolic execution of go/ssa (bounded model checking; z3 decides every obligation)"
claims = {

 "C04": dict(
  text="Per-handler guard completeness of the peering handshake, each handler executed from SSA on an arbitrary frame with an arbitrary decoded body from the state its step expects: handlePeeringRequest accepts only if not from self, identity address == frame source, identity verified (address = hash of key), no live link to that peer, the signed frame verified under that identity's key, link version 1, same universe, challenge >= 16 bytes, and replies self->remote, signed, echoing the received challenge with the universe proof over (universe|challenge|secret|requester|responder) iff a secret is configured; handlePeeringResponse / handlePeeringAck accept only in their step, verified under the step-1 session, remote->self, no error, own challenge echoed exactly, universe proof equal to the recomputed one (self-then-remote order), key share present where the role needs it; handle advances the step exactly on success; handleSetup registers the link only after handshake, key derivation and label assignment succeeded, under the verified session's address, else closes; the three-message key exchange and DeriveSessionFromKX give both ends matching end-to-end and link keys with distinct directions.",
  note="CBOR = arbitrary decoded struct; Ed25519/BLAKE3/X25519/ChaCha20-Poly1305 idealised and recorded; the resistance to altered/truncated/replayed/reflected messages follows on paper from these guards plus C02 (any authenticated byte is covered) and the 32 fresh challenge bytes; no Dolev-Yao multi-session search.",
  tech=TECH),
 "C09": dict(
  text="PARTIAL: the local obligations flooding rests on, not mesh-level convergence. (forwardcopy) a frame of every size up to 20200 bytes received as the link reader receives it can be cloned and given one more hop record within the protocol limits, keeping the link margins and changing neither protected bytes nor the original; (filter) AnnouncePingHandler.Handle never forwards to the origin, the receiving link, routers already in the hop chain or lite peers, and forwards nothing when the route was not added, the router is a stub or its own address is in the chain; the forwarded record carries the labels of the receiving and sending links; (ttl) every forwarding step decreases the TTL and stops at 0. 'Every router holds a route to every other in every connected mesh up to 16' and 'each loop-free path at most once' are NOT claimed.",
  note="hop record 65..400 bytes quick / 1000 thorough; hop chain depth 1 quick / 2 thorough for the filter; convergence and path counting are statements about up to 16 concurrent routers with real crypto and CBOR for which no tractable inductive invariant is known to us: outside solver-based checking of the code.",
  tech=TECH),

 "C08": dict(
  text="AnnouncePingHandler.Handle / parseAnnouncePing / sessionFromAnnouncePingAttachment / signingContext executed from SSA on an announcement with an arbitrary decoded body and an arbitrary chain of up to D decoded hop records arriving over one of three links: every hop record that influences route, stored info or forwarding was verified (Ed25519ctx model) under the key bound to its router's address with a context containing this announcement's origin address and origin signature; unknown hop routers get a session only after their identity verified; own address in the chain => no effect; the added route is [self, signed hops in order with their signed delay/labels, origin] via the delivering peer, which must be the origin (no hops) or the outermost signer; forwarded copies keep body and origin signature, are never sent to origin / receiving link / routers in the chain / lite peers, and carry a new record {own address, receive latency and label, send label, previous appendix} signed with the same context.",
  note="chain depth D=2 quick / 3 thorough (the code allows 100); CBOR = arbitrary decoded struct; Ed25519ctx idealised; AddRoute/AddPublicRouterInfo are recording models; the frame's own authentication is C07.",
  tech=TECH),
 "C19": dict(
  text="Server.Lookup and Server.handleRequest executed from SSA: for each of 8 names (api, forbidden, ordinary, nested, non-.myco) and every combination of the three configurable sources holding that name (plus unrelated entries in every source) Lookup answers from the first source in the order api > resolve > forbidden > friends > mappings with exactly that source's address; handleRequest with symbolic Qtype and Qclass (all 2^32 combinations), upper/lower case and with/without trailing dot replies NameError unless the name is under .myco, the type is A/AAAA/SVCB/HTTPS/ANY and the class IN/ANY, and otherwise carries Lookup's address; no panic.",
  note="query names range over a concrete universe (strings are not symbolic in the engine); one question per request (miekg/dns rejects QDCOUNT != 1 before the handler); dns.NewRR modelled; CleanDomain/IDN outside.",
  tech=TECH),

 "C07": dict(
  text="PARTIAL: (ping) Router.handlePing/parsePingMsg/sessionFromPingHeader on an arbitrary ping-class frame (signed RouterPing/RouterHopPing or encrypted RouterCtrl, arbitrary bytes, arbitrary decoded header, known or unknown source): a ping handler runs only after the frame verified (signature / AEAD) under the key bound to its source, and on first contact a session exists only after the header's key material hashed to the frame source; (disconnect) DisconnectPingHandler.Handle with an arbitrary decoded body removes routes and sets the offline flag only for the frame's source and never forwards to the origin, the receiving link or lite peers. The exactness of RemoveDisconnected itself is checked under C11 (remove harness).",
  note="CBOR = arbitrary decoded struct or error; Ed25519/AEAD/hash idealised and recorded; hello/pong/error/announce handler effects are covered only as far as C14 (hello) and C08-style checks exist; replay after intervening traffic reduces to C03.",
  tech=TECH),
 "C11": dict(
  text="One routing-table operation from an ARBITRARY table satisfying the representation invariant R (sorted by stdSort, <=3 non-peer and <=1 peer entry per destination, consistent totals), entries symbolic (128-bit addresses, hops, delays, expiry): LookupNearest/LookupNearestRoute return the best route to exactly the queried address when one exists; RemoveNextHop/RemoveDisconnected(x,nil) remove exactly the matching entries, keep order and count; AddRoute: not added => unchanged, added => present, R kept, no peer route evicted; Clean: peers kept, nothing invented, expired non-peer routes gone, gossip entries per routing prefix within the limit, sorted again. R is re-asserted after every mutating operation, so sequences of any length follow by induction.",
  note="N<=3 entries (lookup/remove) and N<=2 (add/clean) quick; N<=4/3 thorough; hops 2..H (H=2 quick, 3 thorough); single routable prefix fd00::/8 with symbolic limit 0..2; RemoveDisconnected with explicit peer list, LookupPossiblePaths and Format outside; time.Since/Until summarised by exact threshold lemmas (whole seconds).",
  tech=TECH+" + one-step induction over a representation invariant"),
 "C14": dict(
  text="Two real HelloPingHandlers with real sessions (InitKeyClientStart/InitKeyServer/InitKeyClientComplete/initFinalize executed from SSA) under every schedule of K steps from {A starts a setup, B starts a setup, deliver any sent message}: with message loss, reordering limited by the signed-frame timestamp order, retries after expiry (arbitrary clock): never both set up with keys of different exchanges. Reports the crossing-setup defect as KNOWN-FINDING; any single-initiator mismatch is a VIOLATION.",
  note="X25519 idealised (commutative uninterpreted shared secret), BLAKE3 derive = uninterpreted function, cipher identified by key; sendPingMsg = multiset of sent messages; CBOR tokens; K=5 quick / 7 thorough; counterexamples re-validated symbolically (no native two-router rig).",
  tech=TECH),

 "C06": dict(
  text="symbolic execution of getInfoFromURL/addInPolicyKey/CheckInboundTrafficPolicy for a grid of 216 service URLs (8 schemes x 3 hosts x 9 port spellings) x a symbolic access rule (public/friends bits, <=2 friend addresses, <=2 for-addresses): a packet with symbolic protocol 0..255, destination port 0..65535 and source address is admitted iff the specification table says so (tcp->6, udp->17, http/https->6+17 on explicit or default port, icmp6/ping6->58 port 0; public => anyone, else friends/for); invalid services are refused; no service => deny.",
  note="URL text is enumerated (net/url is evaluated natively on concrete strings); makePolicyKey summarised as an injective key; router paths: Router.handleFrame -> handleIncomingTraffic (delivery to tun only if unsealed under the sender's session, inner == outer addresses, not internal, traffic on, policy or an allowed connection entry admits) and handleTunPacket (enters the mesh only if IPv6, >= 44 bytes, own source, non-multicast Mycoria non-API destination, traffic on, friend when isolated) with idealised crypto and recording models for error pings / hello / routing.",
  tech=TECH),
 "C15": dict(
  text="Symbolic execution of EncryptionSession.Out/In/Check, SequenceHandler.NextOut/RolloverRequired/Reset: one Out step from an arbitrary counter state issues a strictly larger (epoch,seq), never 0, rolls the out key and resets the priority counter on a regular wrap, refuses a priority wrap, and increments the counter only while the session lock is held; an in-order sender/receiver step across the wrap keeps window and key in sync and old-epoch frames are offered the new key; every delivery order of W consecutive frames around the wrap with displacement <= D accepts each frame offered its own key exactly once.",
  note="rolloverKey modelled as key id -> id+100; mutex/atomics sequential (lock discipline asserted from lock events); W=4,D=2 quick / W=6,D=4 thorough; start offsets within 300 of the wrap; true parallelism is outside.",
  tech=TECH),
 "C16": dict(
  text="Symbolic execution of AddLink/RemoveLink/CloseLink/LinkBase.Close/assignSwitchLabel on L real LinkBase objects with symbolic (possibly equal) peer addresses through every sequence of K steps from {assign label, register, close, close-by-peer}: after each step every registered, not-closing link is found by peer and by label, no closing link is found, live labels are unique and non-zero, and the peer-route set equals the set of peers with a live link.",
  note="L=2,K=4 quick / L=3,K=5 thorough; steps are the lock-protected atomic sections (any interleaving of them); routing table = ghost peer-route set; counterexamples replayed by a native driver with real LinkBase objects over net.Pipe.",
  tech=TECH),
 "C18": dict(
  text="PARTIAL (crash half): symbolic execution of JSONFileStorage.Stop and NewJSONFileStorage against a file-system model in which every write stops after a symbolic number of bytes (and the process may die before a rename): the next start succeeds and loads the complete previous or complete new state, for every crash offset and every token length.",
  note="JSON codec modelled as opaque tokens (Unmarshal succeeds exactly on a complete token); the round-trip half (every router/mapping field preserved) lives in encoding/json reflection and is NOT claimed; torn sectors / directory fsync outside.",
  tech=TECH),
 "C20": dict(
  text="PARTIAL (module-group bookkeeping only): symbolic execution of mgr.NewGroup/Group.Start/Stop/stopFrom with K modules each present, typed-nil or nil, symbolic start/stop errors and leftover workers: never panics, holds exactly the present modules in order, starts in order, unwinds in reverse on failure, stops in reverse and reports failure iff a Stop erred or workers remained. That a relay-only router actually runs, peers and stops without leaking goroutines is NOT claimed.",
  note="K=3 quick / 4 thorough; context.WithCancel and WaitForWorkers are models; whole-process behaviour (goroutines, sockets, timers) is outside this technique.",
  tech=TECH),

 "C01": dict(
  text="Symbolic execution of VerifyAddress/VerifyAddressKey/makeAddressDigestData and tryToGenerateAddress: for an arbitrary identity (IPv6/IPv4/invalid address, 15 known + unknown hash names, key-type and key of symbolic length up to 10000, any easing) nil is returned exactly when the address is an fd00::/8 IPv6, all fields present, hash known and the 16 address bytes equal the digest prefix of exactly 01|len(type)|be16(len(key))|type|key|[be64(easing)]; never panics. Every identity the generator returns verifies, lies in a requested prefix, outside ignored/internal ranges, with the easing recorded.",
  note="Hash functions idealised (arbitrary digest bytes, functionally consistent); generator with <=2 acceptable and <=2 ignored symbolic prefixes, maxEasing <=1 quick / 2 thorough; storage reload text parsing (netip.ParseAddr/hex) and the three network entry points are outside this check (entry-point ordering is checked where the router/peering harnesses exist).",
  tech=TECH),
 "C02": dict(
  text="Symbolic execution of NewFrameV1/initFrame/setData/Seal/Unseal/SignRaw/VerifyRaw/encryptFrame/decryptFrame/ParseFrameV1 and the state.Session sequence handlers on a frame of symbolic shape (any type byte, switch block 0..255, message 1..10000, appendix 0..10000): layout round-trips; Verify/Open receive exactly the key, ranges and bytes Sign/Seal used with TTL/flow zeroed; TTL, flow flags and appendix never enter a primitive; sealing is in place and leaves no plaintext; double seal refused; for a symbolic protected byte position changed to another value the receiver's primitive input differs in class, length or a byte.",
  note="Ed25519 / ChaCha20-Poly1305 idealised (arbitrary outputs, arbitrary accept bit, every call recorded); key rollover excluded here (C15); quick uses the production margins (12,16), thorough all margins 0..100; counterexamples in model-using harnesses are re-validated symbolically, not natively.",
  tech=TECH),
 "C05": dict(
  text="Symbolic execution of LinkBase.readFrame/readLengthAndData/writeFrame/writeData and LinkFrame.Seal/Unseal against a net.Conn model that delivers arbitrary bytes in arbitrary pieces: no panic for any length prefix; a frame reaches the caller only after AEAD open, sequence check and parse succeeded; exactly the announced number of bytes is consumed; with link encryption the single Write is header-as-nonce + AEAD output over exactly the frame bytes, nothing in clear.",
  note="AEAD idealised; <=3 successful reads per frame quick / 5 thorough; reader loop (100 consecutive errors) and writer goroutine scheduling not encoded; duplicates/reordering reduce to C03's window (checked there).",
  tech=TECH),
 "C10": dict(
  text="PARTIAL: the local obligations of C10 only. One Switch.handleFrame/forwardToLink/NextRotateSwitchBlock step on an arbitrary parsed frame (arbitrary bytes, switch block 0..B bytes, arbitrary receive label and link registry): every send has TTL reduced by exactly one and still >= 1 (hence at most TTL0-1 links by induction), own-source frames are dropped, a frame is forwarded or escalated at most once, and every byte other than TTL, flow flags and the switch block is unchanged. Mesh-level delivery (request reaches B and only B, reply reaches A) is NOT claimed.",
  note="B=4 quick / 8 thorough; RouteFrame/ForwardByPeer path not yet covered; end-to-end delivery in converged meshes is a global property over up to 16 concurrent routers and is outside this technique's reach.",
  tech=TECH),
 "C13": dict(
  text="nopanic symbolic execution (every implicit Go panic — index, slice bounds incl. the len..cap rule, nil dereference, type assertion, explicit panic incl. the double-release guard — is a solver obligation) of the network-facing kernels: ParseFrame on arbitrary bytes 0..65535 followed by every accessor/mutator (SetAppendixData, Clone, Reply, ReplyTo, ReturnToPool); the link reader with and without link encryption; Switch.handleFrame and NextRotateSwitchBlock on arbitrary blocks up to 11 bytes (incl. overflowing varints); Router.handlePing/parsePingHeader/sessionFromPingHeader with arbitrary decoded headers; Router.handleFrame -> handleIncomingTraffic plus the frameHandler release (each frame released at most once); VerifyAddress on arbitrary identities.",
  note="Announce-ping parsing and the peering handshake handlers are not yet covered; panics inside cbor/dns/gVisor/runtime are outside; sequences of frames are covered in so far as each kernel starts from an arbitrary state.",
  tech=TECH),
 "C17": dict(
  text="Symbolic execution of Clone/SetAppendixData/ReturnToPool/NewFrameV1 on frames of symbolic shape across all five pooled-buffer tiers: the clone equals the original at a symbolic byte index and in all parsed fields, shares no buffer, writes and appendix changes on the clone never reach the original or the clone's protected bytes, releasing one frame leaves another untouched.",
  note="quick: production margins (12,16); thorough: all margins; recycling through an adversarial pool (stale recvLink) not yet covered.",
  tech=TECH),
 "C03": dict(
  text="Bounded symbolic model checking of the real SequenceHandler.Check / TimeSequenceHandler.Check SSA: (induct) one step from an arbitrary state satisfying the window invariant, accepted set as uninterpreted predicate, all 2^32 sequence values and 2^64 bitmaps => delivery histories of any length; (bmc) K arbitrary sequence numbers from both real initial states, replayable natively; (time) accept iff strictly newer.",
  note="Bounds: bmc K=4 quick / 6 thorough; induction relies on the stated invariant I(highest,bitmap,A); sync.Mutex is a no-op (sequential atomic steps); ordering of Check after AEAD open is covered under C02/C05 harnesses; z3 trusted.",
  tech=TECH+" + one-step induction with skolemised invariant"),
 "C12": dict(
  text="Symbolic execution of BuildBlocks/CalculateBlockSize/NextRotateSwitchBlock/TransformToReturnBlock (and encoding/binary varint code) for every size-class vector of 2..N hops with symbolic 16-bit label values: forward/return traversal exact, guard bytes around the block untouched, size sufficient and minimal; block-size arithmetic for up to 101 hops never wraps or panics.",
  note="Bounds: traverse N=3 quick / 4 thorough (all 3^(2(N-1)) class vectors, values symbolic); size H<=4 quick / 6 thorough fully symbolic; sizebig 2..101 hops with uniform size class. Paths with more hops and mixed classes are outside the traverse claim.",
  tech=TECH),
}
na_reason = {}
m = {"version": 1, "setup_cmd": "./setup.sh",
 "hooks": {"guard": "verif", "enable": "harness files are injected as go/packages and `go test -overlay` overlays carrying //go:build verif; nothing guarded is added to /repo", "baseline_off_cmd": "cd /repo && PATH=/opt/veriftools/go1.26.8/bin:$PATH GOFLAGS=-mod=mod GOPROXY=off GOTOOLCHAIN=local go test -json -vet=off -count=1 -timeout 25m ./...", "source_commits": [], "add_only": True},
 "engines": [{"name": "gosmt", "path": "engine/", "serves_properties": sorted(claims), "kind_free_text": "own Go SSA (golang.org/x/tools/go/ssa v0.50.0) -> SMT-LIB2 symbolic executor; z3 4.8.12 decides every obligation; counterexamples are replayed against the natively compiled real code with go test -overlay"}],
 "checks": [], "not_applicable": [],
 "notes": "Exit codes: 0 = all obligations unsat within the stated bounds; 1 = VIOLATION (replayed counterexample); 3 = INCONCLUSIVE (unwind/timeout/unsupported/replay mismatch). known_findings.json lists recorded and fixed defects."}
for p in props:
    if p in claims:
        c = claims[p]
        m["checks"].append({"property_id": p, "quick_cmd": "./vfcheck %s quick" % p, "thorough_cmd": "./vfcheck %s thorough" % p,
          "evidence_file": "evidence/%s.json" % p, "replay_cmd_template": "./bin/gosmt check %s --replay {path}" % p, "engine": "gosmt",
          "level_claimed": {"category": "model_checking", "text": c["text"], "design_ref": "DESIGN.md section 4, " + p},
          "level_note": c["note"], "technique": c["tech"]})
    else:
        m["not_applicable"].append({"property_id": p, "reason": na_reason.get(p, "check not yet built in this session (engine under construction); see DESIGN.md section 4 for the planned encoding")})
json.dump(m, open(os.path.join(V, 'MANIFEST.json'), 'w'), indent=1)
print("claimed:", sorted(claims))
