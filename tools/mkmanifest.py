#!/usr/bin/env python3
"""Regenerates /verif/MANIFEST.json from the table below (single source of truth)."""
import json, os
V = os.path.dirname(os.path.dirname(os.path.abspath(__file__)))
props = [json.loads(l)['id'] for l in open(os.path.join(V, 'properties.jsonl'))]
TECH = "SMT-based symbolic execution of go/ssa (bounded model checking; z3 decides every obligation)"
claims = {
 "C03": dict(
  text="Bounded symbolic model checking of the real SequenceHandler.Check / TimeSequenceHandler.Check SSA: (induct) one step from an arbitrary state satisfying the window invariant, accepted set as uninterpreted predicate, all 2^32 sequence values and 2^64 bitmaps => delivery histories of any length; (bmc) K arbitrary sequence numbers from both real initial states, replayable natively; (time) accept iff strictly newer.",
  note="Bounds: bmc K=4 quick / 6 thorough; induction relies on the stated invariant I(highest,bitmap,A); sync.Mutex is a no-op (sequential atomic steps); ordering of Check after AEAD open is covered under C02/C05 harnesses; z3 trusted.",
  tech=TECH+" + one-step induction with skolemised invariant"),
 "C12": dict(
  text="Symbolic execution of BuildBlocks/CalculateBlockSize/NextRotateSwitchBlock/TransformToReturnBlock (and encoding/binary varint code) for every size-class vector of 2..N hops with symbolic 16-bit label values: forward/return traversal exact, guard bytes around the block untouched, size sufficient and minimal; block-size arithmetic for up to 101 hops never wraps or panics.",
  note="Bounds: traverse N=3 quick / 4 thorough (all 3^(2(N-1)) class vectors, values symbolic); size H<=4 quick / 6 thorough fully symbolic; sizebig 2..101 hops with uniform size class. Paths with more hops and mixed classes are outside the traverse claim.",
  tech=TECH),
}
na_reason = {}
m = {"version": 1, "setup_cmd": "./setup.sh",
 "hooks": {"guard": "verif", "enable": "harness files are injected as go/packages and `go test -overlay` overlays carrying //go:build verif; nothing guarded is added to /repo", "baseline_off_cmd": "cd /repo && PATH=/opt/veriftools/go1.26.8/bin:$PATH GOFLAGS=-mod=mod GOPROXY=off GOTOOLCHAIN=local go test -json -vet=off -count=1 -timeout 25m ./...", "source_commits": [], "add_only": True},
 "engines": [{"name": "gosmt", "path": "engine/", "serves_properties": sorted(claims), "kind_free_text": "own Go SSA (golang.org/x/tools/go/ssa v0.50.0) -> SMT-LIB2 symbolic executor; z3 4.8.12 decides every obligation; counterexamples are replayed against the natively compiled real code with go test -overlay"}],
 "checks": [], "not_applicable": [],
 "notes": "Exit codes: 0 = all obligations unsat within the stated bounds; 1 = VIOLATION (replayed counterexample); 3 = INCONCLUSIVE (unwind/timeout/unsupported/replay mismatch). known_findings.json lists recorded and fixed defects."}
for p in props:
    if p in claims:
        c = claims[p]
        m["checks"].append({"property_id": p, "quick_cmd": "./vfcheck %s quick" % p, "thorough_cmd": "./vfcheck %s thorough" % p,
          "evidence_file": "evidence/%s.json" % p, "replay_cmd_template": "./bin/gosmt check %s --replay {path}" % p, "engine": "gosmt",
          "level_claimed": {"category": "model_checking", "text": c["text"], "design_ref": "DESIGN.md section 4, " + p},
          "level_note": c["note"], "technique": c["tech"]})
    else:
        m["not_applicable"].append({"property_id": p, "reason": na_reason.get(p, "check not yet built in this session (engine under construction); see DESIGN.md section 4 for the planned encoding")})
json.dump(m, open(os.path.join(V, 'MANIFEST.json'), 'w'), indent=1)
print("claimed:", sorted(claims))
