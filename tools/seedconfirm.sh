#!/bin/bash
# usage: seedconfirm.sh <prop> <n> <pkgdir> : confirm a seeded change in its scratch worktree
# (demo passes clean, patch builds, suite passes (known flakes tolerated), demo fails with patch)
export PATH=/opt/veriftools/go1.26.8/bin:$PATH GOFLAGS=-mod=mod GOPROXY=off GOTOOLCHAIN=local
p=$1; n=$2; dir=$3; wt=/tmp/wt_$p; sd=/tmp/seed_$p
cd $wt || exit 2
git checkout -q -- . && git clean -fdq
cp $sd/demo_${n}_test.go $dir/zz_demo_${n}_test.go
clean=$(go test -vet=off -count=1 ./$dir/ -run 'Demo|demo|ZZ' 2>&1 | tail -1)
git apply $sd/patch_$n.diff || { echo "APPLY-FAIL"; exit 1; }
build=$(go build ./... 2>&1 | tail -1)
patched=$(go test -vet=off -count=1 ./$dir/ -run 'Demo|demo|ZZ' 2>&1 | tail -1)
rm $dir/zz_demo_${n}_test.go
suite=$(go test -vet=off -count=1 ./... 2>&1 | grep -v "no test files" | grep -v "^ok" | grep -v "^---\|^    \|^FAIL$\|^$" | tr '\n' ' ')
git checkout -q -- . && git clean -fdq
echo "$p-$n clean=[$clean] build=[$build] patched=[$patched] suite-nonok=[$suite]"
