#!/bin/bash
# usage: runall_here.sh [tier] [per-check-timeout-s] [ids...]: like runall.sh but in the directory the script lives in
# (for `vp run` snapshots): VERIF_DIR points the engine at this copy of /verif.
cd "$(dirname "$0")/.." || exit 1
export VERIF_DIR=$PWD
tier=${1:-quick}; to=${2:-3600}; shift; shift
[ -x bin/gosmt ] || ./setup.sh >/dev/null
ids="$@"; [ -z "$ids" ] && ids=$(python3 -c "import json;print(' '.join(c['property_id'] for c in json.load(open('MANIFEST.json'))['checks']))")
for p in $ids; do
  s=$(date +%s); out=$(timeout $to ./vfcheck $p $tier 2>&1); code=$?; e=$(( $(date +%s) - s ))
  echo "$p tier=$tier exit=$code ${e}s $(echo "$out" | grep -E '^VIOLATION|^INCONCLUSIVE|^KNOWN' | head -3 | cut -c1-140 | tr '\n' '|')"
  echo "$out" | grep -E "^harness|^violation" | cut -c1-220 | sed 's/^/    /'
done
