package main

import (
	"fmt"
	"go/types"

	"golang.org/x/tools/go/ssa"
)

// Value is a runtime value of the symbolic interpreter:
//   *Term      bool / integer scalars (Bool or BV sort)
//   FloatV     concrete floats (only concrete floating point is supported)
//   *SliceV    slices and strings
//   *PtrV      pointers (nil pointer: Obj == nil)
//   *StructV   struct values
//   *ArrayV    array values
//   *IfaceV    interface values (nil interface: Typ == nil)
//   *FuncV     closures / function values (nil: Fn == nil && Builtin == "")
//   *MapV      maps (nil map: M == nil)
//   *ChanV     channels (modelled as event sinks)
//   TupleV     multi-value results
//   *IterV     map/string range iterators
//   Poison     a value that could not be computed in lenient (init) mode
type Value interface{}

type FloatV struct {
	F float64
	W int
}

type Poison struct{ Why string }

// ReflectV is the result of reflect.ValueOf (only IsNil is supported on it).
type ReflectV struct{ V Value }

type TupleV []Value

// ByteStore is the backing store of []intN / string data: a base SMT array plus
// a write log, so that copy/clear/append with symbolic lengths need neither
// unrolling nor quantifiers.
type logKind uint8

const (
	logStore logKind = iota
	logCopy
	logFill
)

type logEntry struct {
	kind   logKind
	idx    *Term // store index / dst offset
	n      *Term // copy / fill length
	val    *Term // store / fill value
	src    *Object
	srcLen int   // snapshot: number of log entries of src visible
	srcOff *Term // copy source offset
}

type Object struct {
	ID   int
	Typ  types.Type // type of the cell (for arrays of scalars in a ByteStore: the array/elem type)
	Name string

	// exactly one representation is used:
	Val    Value     // scalar cell (Term, PtrV, SliceV, IfaceV, FuncV, MapV, ...)
	Fields []*Object // struct cell
	Elems  []*Object // array cell with per-element objects (concrete length)

	// byte-store representation (arrays of fixed-width integers)
	IsBytes  bool
	ElemW    int
	Base     *Term  // SMT array, or nil when Concrete != nil
	Concrete []byte // immutable concrete base (string constants); only ElemW==8
	Log      []logEntry
	Cap      *Term // number of elements (64-bit)
	ReadOnly bool

	Ghost map[string]Value // engine/harness bookkeeping attached to an object
}

type PtrV struct {
	Obj *Object
	// For pointers into a byte store: element index (Win false), or the start
	// of an array window (Win true; pointer to [N]T inside the store).
	Idx *Term
	Win bool
}

type SliceV struct {
	Obj      *Object // nil for nil slice
	Off      *Term   // 64-bit
	Len      *Term
	Cap      *Term
	IsString bool
}

type StructV struct {
	Typ    types.Type
	Fields []Value
}

type ArrayV struct {
	Typ   types.Type
	Elems []Value
}

type IfaceV struct {
	Typ types.Type // dynamic type, nil for nil interface
	Val Value
}

type FuncV struct {
	Fn       *ssa.Function
	Bindings []Value
	Builtin  string
	Recv     Value // bound method receiver for Builtin closures
}

type MapEntry struct {
	Key     Value
	Val     Value
	Present *Term
}

type MapObj struct {
	ID      int
	Typ     *types.Map
	Entries []*MapEntry
}

type MapV struct{ M *MapObj }

type ChanV struct {
	ID   int
	Name string
	Buf  []Value
	Closed bool // close(ch) was executed (a second close panics)
	Cap  int // buffer capacity (0 = unbuffered: a send is never ready, no receivers are modelled)
}

type IterV struct {
	M      *MapObj
	Order  []int
	Pos    int
	Str    *SliceV
	StrPos int
}

func (p *PtrV) IsNil() bool { return p == nil || p.Obj == nil }

func typeWidth(t types.Type) int {
	switch b := t.Underlying().(type) {
	case *types.Basic:
		switch b.Kind() {
		case types.Bool, types.UntypedBool:
			return 1
		case types.Int8, types.Uint8:
			return 8
		case types.Int16, types.Uint16:
			return 16
		case types.Int32, types.Uint32, types.UntypedRune:
			return 32
		case types.Int, types.Uint, types.Int64, types.Uint64, types.Uintptr, types.UntypedInt, types.UnsafePointer:
			return 64
		}
	}
	return 0
}

func isSigned(t types.Type) bool {
	if b, ok := t.Underlying().(*types.Basic); ok {
		switch b.Kind() {
		case types.Int, types.Int8, types.Int16, types.Int32, types.Int64, types.UntypedInt, types.UntypedRune:
			return true
		}
	}
	return false
}

func isBool(t types.Type) bool {
	b, ok := t.Underlying().(*types.Basic)
	return ok && b.Info()&types.IsBoolean != 0
}

func isIntegerT(t types.Type) bool {
	b, ok := t.Underlying().(*types.Basic)
	return ok && b.Info()&types.IsInteger != 0
}

func isFloatT(t types.Type) bool {
	b, ok := t.Underlying().(*types.Basic)
	return ok && b.Info()&types.IsFloat != 0
}

func isStringT(t types.Type) bool {
	b, ok := t.Underlying().(*types.Basic)
	return ok && b.Info()&types.IsString != 0
}

// byteStoreElem reports whether arrays/slices of elem are kept in a ByteStore.
func byteStoreElem(elem types.Type) (int, bool) {
	if isIntegerT(elem) {
		return typeWidth(elem), true
	}
	return 0, false
}

func describe(v Value) string {
	switch x := v.(type) {
	case nil:
		return "<nil>"
	case *Term:
		return x.String()
	case *SliceV:
		if x.Obj == nil {
			return "slice(nil)"
		}
		return fmt.Sprintf("slice(obj%d off=%s len=%s cap=%s)", x.Obj.ID, x.Off, x.Len, x.Cap)
	case *PtrV:
		if x.Obj == nil {
			return "ptr(nil)"
		}
		return fmt.Sprintf("ptr(obj%d)", x.Obj.ID)
	case *StructV:
		s := "struct{"
		for i, f := range x.Fields {
			if i > 0 {
				s += ", "
			}
			s += describe(f)
		}
		return s + "}"
	case *IfaceV:
		if x.Typ == nil {
			return "iface(nil)"
		}
		return "iface(" + x.Typ.String() + ")"
	case *FuncV:
		if x.Fn != nil {
			return "func(" + x.Fn.String() + ")"
		}
		return "func(" + x.Builtin + ")"
	case Poison:
		return "poison(" + x.Why + ")"
	}
	return fmt.Sprintf("%T", v)
}
