package main

import (
	"go/types"
	"sort"

	"golang.org/x/tools/go/ssa"
)

func (p *Path) builtin(name string, args []Value, site ssa.Instruction) Value {
	tc := p.tc
	switch name {
	case "len":
		switch x := args[0].(type) {
		case *SliceV:
			return x.Len
		case *MapV:
			return p.mapLen(x)
		case *ArrayV:
			return tc.Const(64, uint64(len(x.Elems)))
		case *PtrV:
			if at, ok := site.(*ssa.Call).Call.Args[0].Type().(*types.Pointer).Elem().Underlying().(*types.Array); ok {
				return tc.Const(64, uint64(at.Len()))
			}
		case *ChanV:
			if x == nil {
				return tc.Const(64, 0)
			}
			return tc.Const(64, uint64(len(x.Buf)))
		}
	case "cap":
		switch x := args[0].(type) {
		case *SliceV:
			return x.Cap
		case *ArrayV:
			return tc.Const(64, uint64(len(x.Elems)))
		case *ChanV:
			if x == nil {
				return tc.Const(64, 0)
			}
			return tc.Const(64, uint64(x.Cap))
		}
	case "append":
		return p.appendOp(args[0].(*SliceV), args[1].(*SliceV), site)
	case "copy":
		return p.copyOp(args[0].(*SliceV), args[1].(*SliceV))
	case "clear":
		switch x := args[0].(type) {
		case *SliceV:
			p.clearSlice(x)
			return nil
		case *MapV:
			if x.M != nil {
				x.M.Entries = nil
			}
			return nil
		}
	case "delete":
		p.mapDelete(args[0], args[1])
		return nil
	case "min", "max":
		res := args[0]
		ty := site.(ssa.Value).Type()
		for _, a := range args[1:] {
			rt, at := res.(*Term), a.(*Term)
			var lt *Term
			if isSigned(ty) {
				lt = tc.Slt(at, rt)
			} else {
				lt = tc.Ult(at, rt)
			}
			if name == "max" {
				lt = tc.Not(tc.Or(lt, tc.Eq(at, rt)))
				// a > res
			}
			res = tc.Ite(lt, at, rt)
		}
		return res
	case "print", "println":
		return nil
	case "recover":
		return &IfaceV{}
	case "close":
		if p.guard != nil {
			panic(mergeAbort{"close in merge region"})
		}
		p.events = append(p.events, Event{Name: "close", Args: args})
		if ch, ok := args[0].(*ChanV); ok {
			if ch == nil {
				p.obligation(p.tc.False, "panic", "close-nil-channel", "close of nil channel")
				p.end("gopanic", "close of nil channel")
			}
			if ch.Closed {
				p.obligation(p.tc.False, "panic", "close-closed-channel", "close of closed channel")
				p.end("gopanic", "close of closed channel")
			}
			ch.Closed = true
		}
		return nil
	case "ssa:wrapnilchk":
		ptr := args[0].(*PtrV)
		p.nilCheck(ptr, "value method called using nil pointer")
		return ptr
	}
	p.unsupported("builtin %s on %T", name, args[0])
	return nil
}

func (p *Path) clearSlice(x *SliceV) {
	if x.Obj == nil {
		return
	}
	if x.Obj.IsBytes {
		p.fillElems(x.Obj, x.Off, x.Len, p.tc.Const(x.Obj.ElemW, 0))
		return
	}
	n := p.concretize(x.Len, 0, len(x.Obj.Elems)+1)
	off := p.concretize(x.Off, 0, len(x.Obj.Elems)+1)
	et := x.Obj.Typ.Underlying().(*types.Array).Elem()
	for i := 0; i < n; i++ {
		p.storeObj(x.Obj.Elems[off+i], p.zero(et))
	}
}

func (p *Path) umin(a, b *Term) *Term { return p.tc.Ite(p.tc.Ult(a, b), a, b) }

func (p *Path) copyOp(dst, src *SliceV) Value {
	n := p.umin(dst.Len, src.Len)
	if dst.Obj == nil || src.Obj == nil {
		return p.tc.Const(64, 0)
	}
	if dst.Obj.IsBytes {
		if !src.Obj.IsBytes {
			p.unsupported("copy from non-bytestore into bytestore")
		}
		p.copyElems(dst.Obj, dst.Off, src.Obj, src.Off, n)
		return n
	}
	cn := p.concretize(n, 0, len(dst.Obj.Elems)+1)
	doff := p.concretize(dst.Off, 0, len(dst.Obj.Elems)+1)
	soff := p.concretize(src.Off, 0, len(src.Obj.Elems)+1)
	vals := make([]Value, cn)
	for i := 0; i < cn; i++ {
		vals[i] = p.loadObj(src.Obj.Elems[soff+i])
	}
	for i := 0; i < cn; i++ {
		p.storeObj(dst.Obj.Elems[doff+i], vals[i])
	}
	return p.tc.Const(64, uint64(cn))
}

func (p *Path) appendOp(s, t *SliceV, site ssa.Instruction) Value {
	tc := p.tc
	if t.Obj == nil || (t.Len.IsConst() && t.Len.Val == 0) {
		return s
	}
	newLen := tc.BvAdd(s.Len, t.Len)
	elemT := site.(ssa.Value).Type().Underlying().(*types.Slice).Elem()
	isBytes := false
	if s.Obj != nil {
		isBytes = s.Obj.IsBytes
	} else {
		_, isBytes = byteStoreElem(elemT)
	}
	if isBytes {
		if t.Obj != nil && !t.Obj.IsBytes {
			p.unsupported("append non-bytestore to bytestore")
		}
		if s.Obj != nil && p.branch(tc.Ule(newLen, s.Cap)) {
			p.copyElems(s.Obj, tc.BvAdd(s.Off, s.Len), t.Obj, t.Off, t.Len)
			return &SliceV{Obj: s.Obj, Off: s.Off, Len: newLen, Cap: s.Cap, IsString: false}
		}
		w, _ := byteStoreElem(elemT)
		o := p.newByteStore(elemT, w, newLen, false, "append")
		if s.Obj != nil {
			p.copyElems(o, tc.Const(64, 0), s.Obj, s.Off, s.Len)
		}
		p.copyElems(o, s.Len, t.Obj, t.Off, t.Len)
		return &SliceV{Obj: o, Off: tc.Const(64, 0), Len: newLen, Cap: newLen}
	}
	// element-object slices: concrete shapes
	maxN := p.eng.maxElems
	sl, so, sc := 0, 0, 0
	if s.Obj != nil {
		sl = p.concretize(s.Len, 0, len(s.Obj.Elems)+1)
		so = p.concretize(s.Off, 0, len(s.Obj.Elems)+1)
		sc = p.concretize(s.Cap, 0, len(s.Obj.Elems)+1)
	}
	tl := p.concretize(t.Len, 0, len(t.Obj.Elems)+1)
	to := p.concretize(t.Off, 0, len(t.Obj.Elems)+1)
	if sl+tl > 1<<20 {
		p.end("unwind", "append beyond max element-slice size at %s", p.where())
	}
	_ = maxN
	vals := make([]Value, tl)
	for i := 0; i < tl; i++ {
		vals[i] = p.loadObj(t.Obj.Elems[to+i])
	}
	if s.Obj != nil && sl+tl <= sc {
		for i := 0; i < tl; i++ {
			p.storeObj(s.Obj.Elems[so+sl+i], vals[i])
		}
		return &SliceV{Obj: s.Obj, Off: s.Off, Len: tc.Const(64, uint64(sl+tl)), Cap: s.Cap}
	}
	ncap := sl + tl
	if ncap < 2*sc {
		ncap = 2 * sc
	}
	o := p.newElemStore(elemT, ncap, "append")
	for i := 0; i < sl; i++ {
		p.storeObj(o.Elems[i], p.loadObj(s.Obj.Elems[so+i]))
	}
	for i := 0; i < tl; i++ {
		p.storeObj(o.Elems[sl+i], vals[i])
	}
	return &SliceV{Obj: o, Off: tc.Const(64, 0), Len: tc.Const(64, uint64(sl+tl)), Cap: tc.Const(64, uint64(ncap))}
}

// ---------- maps ----------

// keyEq compares a lookup key with a stored key.
func (p *Path) keyEq(a, b Value) *Term { return p.valueEq(a, b) }

// mapTouch records an access to a map the harness declared guarded (vf.GuardMap):
// an event "map:<name>", so that vf.HeldDuring can decide the lock discipline.
func (p *Path) mapTouch(m *MapObj) {
	if m == nil || p.guardedMaps == nil {
		return
	}
	name, ok := p.guardedMaps[m]
	if !ok {
		return
	}
	if p.guard != nil {
		panic(mergeAbort{"guarded map access in merge region"})
	}
	p.events = append(p.events, Event{Name: "map:" + name})
}

func (p *Path) mapLen(m *MapV) *Term {
	tc := p.tc
	n := tc.Const(64, 0)
	if m.M == nil {
		return n
	}
	p.mapTouch(m.M)
	for _, e := range m.M.Entries {
		n = tc.BvAdd(n, tc.Ite(e.Present, tc.Const(64, 1), tc.Const(64, 0)))
	}
	return n
}

func (p *Path) mapLookup(mv Value, key Value, commaOk bool, elemT types.Type) Value {
	tc := p.tc
	m, ok := mv.(*MapV)
	if !ok {
		p.unsupported("lookup in %T", mv)
	}
	zero := p.zero(elemT)
	var res Value = zero
	found := tc.False
	if m.M != nil {
		p.mapTouch(m.M)
		// entries are kept with pairwise-distinct keys (see mapUpdate), so order is irrelevant
		for _, e := range m.M.Entries {
			hit := tc.And(e.Present, p.keyEq(key, e.Key))
			if hit.IsFalse() {
				continue
			}
			if hit.IsTrue() {
				res = e.Val
				found = tc.True
				break
			}
			res = p.iteValue(hit, e.Val, res)
			found = tc.Or(found, hit)
		}
	}
	if commaOk {
		return TupleV{res, found}
	}
	return res
}

// iteValue builds ite(c, a, b) over values; forks when the shapes cannot be merged.
func (p *Path) iteValue(c *Term, a, b Value) Value {
	tc := p.tc
	if c.IsTrue() {
		return a
	}
	if c.IsFalse() {
		return b
	}
	switch av := a.(type) {
	case *Term:
		if bv, ok := b.(*Term); ok {
			return tc.Ite(c, av, bv)
		}
	case *StructV:
		if bv, ok := b.(*StructV); ok && len(av.Fields) == len(bv.Fields) {
			out := &StructV{Typ: av.Typ, Fields: make([]Value, len(av.Fields))}
			for i := range av.Fields {
				out.Fields[i] = p.iteValue(c, av.Fields[i], bv.Fields[i])
			}
			return out
		}
	case *ArrayV:
		if bv, ok := b.(*ArrayV); ok && len(av.Elems) == len(bv.Elems) {
			out := &ArrayV{Typ: av.Typ, Elems: make([]Value, len(av.Elems))}
			for i := range av.Elems {
				out.Elems[i] = p.iteValue(c, av.Elems[i], bv.Elems[i])
			}
			return out
		}
	case *PtrV:
		if bv, ok := b.(*PtrV); ok && av.Obj == bv.Obj {
			if av.Idx == nil && bv.Idx == nil {
				return av
			}
			if av.Idx != nil && bv.Idx != nil && av.Win == bv.Win {
				return &PtrV{Obj: av.Obj, Idx: tc.Ite(c, av.Idx, bv.Idx), Win: av.Win}
			}
		}
	case *SliceV:
		if bv, ok := b.(*SliceV); ok && av.Obj == bv.Obj && av.IsString == bv.IsString {
			return &SliceV{Obj: av.Obj, Off: tc.Ite(c, av.Off, bv.Off), Len: tc.Ite(c, av.Len, bv.Len), Cap: tc.Ite(c, av.Cap, bv.Cap), IsString: av.IsString}
		}
		if bv, ok := b.(*SliceV); ok {
			// nil vs empty etc: if both lengths are zero constants they are interchangeable only if nil-ness is equal
			_ = bv
		}
	case *IfaceV:
		if bv, ok := b.(*IfaceV); ok {
			if av.Typ == nil && bv.Typ == nil {
				return av
			}
			if av.Typ != nil && bv.Typ != nil && types.Identical(av.Typ, bv.Typ) {
				return &IfaceV{Typ: av.Typ, Val: p.iteValue(c, av.Val, bv.Val)}
			}
		}
	case *MapV:
		if bv, ok := b.(*MapV); ok && av.M == bv.M {
			return av
		}
	case *FuncV:
		if bv, ok := b.(*FuncV); ok && av == bv {
			return av
		}
	case FloatV:
		if bv, ok := b.(FloatV); ok && av == bv {
			return av
		}
	case TupleV:
		if bv, ok := b.(TupleV); ok && len(av) == len(bv) {
			out := make(TupleV, len(av))
			for i := range av {
				out[i] = p.iteValue(c, av[i], bv[i])
			}
			return out
		}
	case nil:
		if b == nil {
			return nil
		}
	}
	// cannot merge structurally: decide the condition (fork)
	if p.branch(c) {
		return a
	}
	return b
}

func (p *Path) mapUpdate(mv Value, key, val Value) {
	tc := p.tc
	m, ok := mv.(*MapV)
	if !ok {
		if _, isP := mv.(Poison); isP {
			return
		}
		p.unsupported("map update on %T", mv)
	}
	if m.M == nil {
		p.obligation(tc.False, "panic", "nil-map", "assignment to entry in nil map")
		p.end("gopanic", "nil map write")
	}
	if p.guard != nil {
		panic(mergeAbort{"map write in merge region"})
	}
	p.mapTouch(m.M)
	// keep keys pairwise distinct among present entries: update matching entries in place,
	// add a new entry present iff no existing one matched.
	anyHit := tc.False
	for _, e := range m.M.Entries {
		hit := tc.And(e.Present, p.keyEq(key, e.Key))
		if hit.IsFalse() {
			continue
		}
		if hit.IsTrue() {
			e.Val = val
			return
		}
		e.Val = p.iteValue(hit, val, e.Val)
		anyHit = tc.Or(anyHit, hit)
	}
	m.M.Entries = append(m.M.Entries, &MapEntry{Key: key, Val: val, Present: tc.Not(anyHit)})
}

func (p *Path) mapDelete(mv Value, key Value) {
	tc := p.tc
	m := mv.(*MapV)
	if m.M == nil {
		return
	}
	if p.guard != nil {
		panic(mergeAbort{"map write in merge region"})
	}
	p.mapTouch(m.M)
	for _, e := range m.M.Entries {
		hit := tc.And(e.Present, p.keyEq(key, e.Key))
		e.Present = tc.And(e.Present, tc.Not(hit))
	}
}

// map iteration: entries whose presence is symbolic are decided (forked) first;
// the order is insertion order (one representative of Go's unspecified order;
// recorded as an assumption).
func (p *Path) rangeStart(x Value) Value {
	switch xv := x.(type) {
	case *MapV:
		it := &IterV{}
		if xv.M != nil {
			p.mapTouch(xv.M)
			it.M = xv.M
			for i, e := range xv.M.Entries {
				if p.branch(e.Present) {
					it.Order = append(it.Order, i)
				}
			}
			if len(it.Order) > 1 {
				p.note("map iteration order fixed to insertion order")
				if p.h.MapOrderDesc {
					sort.Sort(sort.Reverse(sort.IntSlice(it.Order)))
				}
			}
		}
		return it
	case *SliceV:
		if xv.IsString {
			return &IterV{Str: xv}
		}
	}
	p.unsupported("range over %T", x)
	return nil
}

func (p *Path) rangeNext(it *IterV, in *ssa.Next) Value {
	tc := p.tc
	if in.IsString {
		s := it.Str
		if !p.branch(tc.Ult(tc.Const(64, uint64(it.StrPos)), s.Len)) {
			return TupleV{tc.False, tc.Const(64, 0), tc.Const(32, 0)}
		}
		b := p.readElem(s.Obj, tc.BvAdd(s.Off, tc.Const(64, uint64(it.StrPos))))
		// ASCII only
		p.obligationAssume(tc.Ult(b, tc.Const(8, 0x80)), "non-ASCII byte in string range")
		r := TupleV{tc.True, tc.Const(64, uint64(it.StrPos)), tc.Zext(b, 32)}
		it.StrPos++
		return r
	}
	mt := it.M
	if mt == nil || it.Pos >= len(it.Order) {
		tt := in.Type().(*types.Tuple)
		zk := func(t types.Type) Value {
			if b, ok := t.(*types.Basic); ok && b.Kind() == types.Invalid {
				return nil // blank identifier in the range clause
			}
			return p.zero(t)
		}
		return TupleV{tc.False, zk(tt.At(1).Type()), zk(tt.At(2).Type())}
	}
	e := mt.Entries[it.Order[it.Pos]]
	it.Pos++
	return TupleV{tc.True, e.Key, e.Val}
}

// obligationAssume restricts the path to executions satisfying c, recording why.
func (p *Path) obligationAssume(c *Term, why string) {
	if c.IsTrue() {
		return
	}
	p.note("assumed: " + why)
	p.assume(c)
}

// ---------- channels ----------

func (p *Path) chanSend(ch Value, v Value) {
	c, _ := ch.(*ChanV)
	if p.guard != nil {
		panic(mergeAbort{"channel operation in merge region"})
	}
	p.events = append(p.events, Event{Name: "send", Args: []Value{c, v}})
	if c != nil {
		c.Buf = append(c.Buf, v)
	}
}

func (p *Path) chanRecv(ch Value, commaOk bool, t types.Type) Value {
	c, _ := ch.(*ChanV)
	if p.guard != nil {
		panic(mergeAbort{"channel operation in merge region"})
	}
	if c != nil && len(c.Buf) == 0 && c.Closed {
		// receive from a closed, drained channel: the zero value, ok == false
		z := p.zero(t)
		if commaOk {
			return TupleV{z, p.tc.False}
		}
		return z
	}
	if c == nil || len(c.Buf) == 0 {
		p.end("done", "blocking receive (no scripted value)")
	}
	v := c.Buf[0]
	c.Buf = c.Buf[1:]
	if commaOk {
		return TupleV{v, p.tc.True}
	}
	return v
}

func (p *Path) selectOp(fr *Frame, in *ssa.Select) Value {
	if p.guard != nil {
		panic(mergeAbort{"select in merge region"})
	}
	// Scripted environment: a send case is always ready (queue model); otherwise
	// default if non-blocking; otherwise first receive case with a buffered value.
	tc := p.tc
	tt := in.Type().(*types.Tuple)
	mk := func(idx int, recvOk bool, recvVals map[int]Value) Value {
		tv := make(TupleV, tt.Len())
		tv[0] = tc.Const(64, uint64(int64(idx)))
		tv[1] = tc.Bool(recvOk)
		k := 2
		for i, st := range in.States {
			if st.Dir == types.RecvOnly {
				if v, ok := recvVals[i]; ok {
					tv[k] = v
				} else {
					tv[k] = p.zero(tt.At(k).Type())
				}
				k++
			}
		}
		return tv
	}
	// ready candidates
	var ready []int
	for i, st := range in.States {
		ch, _ := p.get(fr, st.Chan).(*ChanV)
		if st.Dir == types.SendOnly {
			if ch != nil && len(ch.Buf) < ch.Cap {
				ready = append(ready, i)
			}
		} else if ch != nil && (len(ch.Buf) > 0 || ch.Closed) {
			ready = append(ready, i)
		}
	}
	nopt := len(ready)
	if !in.Blocking {
		nopt++
	}
	if nopt == 0 {
		p.end("done", "blocking select with nothing ready")
	}
	k := p.choose(nopt)
	if k >= len(ready) {
		return mk(-1, false, nil)
	}
	i := ready[k]
	st := in.States[i]
	ch := p.get(fr, st.Chan).(*ChanV)
	if st.Dir == types.SendOnly {
		p.chanSend(ch, p.get(fr, st.Send))
		return mk(i, false, nil)
	}
	if len(ch.Buf) == 0 {
		return mk(i, false, nil) // closed and drained: zero value, ok == false
	}
	v := ch.Buf[0]
	ch.Buf = ch.Buf[1:]
	return mk(i, true, map[int]Value{i: v})
}
