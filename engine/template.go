package main

// Package initialisers are interpreted once per harness run in a concrete
// "template" world; every path that touches a package's globals receives a
// deep copy of the initialised objects instead of re-running the initialiser.

import (
	"go/types"

	"golang.org/x/tools/go/ssa"
)

func (e *Engine) template() *Path {
	if e.tmpl == nil {
		t := &Path{eng: e, h: &HarnessCfg{Name: "template", Unwind: 1 << 30}, tc: NewTermCtx(),
			globals: map[*ssa.Global]*Object{}, initRun: map[*ssa.Package]bool{}, isTemplate: true}
		t.st.Funcs = nil
		e.tmpl = t
	}
	return e.tmpl
}

// initFromTemplate makes pkg's initialised globals available in p.
func (p *Path) initFromTemplate(pkg *ssa.Package) {
	e := p.eng
	e.tmplMu.Lock()
	defer e.tmplMu.Unlock()
	t := e.template()
	if !t.initRun[pkg] {
		func() {
			defer func() {
				if r := recover(); r != nil {
					switch r.(type) {
					case pathEnd, lenientFail, mergeAbort:
						// initialiser could not be completed: what was initialised so far is kept
					default:
						panic(r)
					}
				}
			}()
			t.runInitDirect(pkg)
		}()
		t.initRun[pkg] = true
		t.stack = nil
	}
	if p.cloneMemo == nil {
		p.cloneMemo = map[*Object]*Object{}
		p.cloneMaps = map[*MapObj]*MapObj{}
	}
	for g, o := range t.globals {
		if g.Pkg == pkg {
			if _, have := p.globals[g]; !have {
				p.globals[g] = p.cloneObj(o)
			}
		}
	}
	// packages initialised as a side effect in the template are initialised for p as well
	for q := range t.initRun {
		if !p.initRun[q] {
			p.initRun[q] = true
			for g, o := range t.globals {
				if g.Pkg == q {
					if _, have := p.globals[g]; !have {
						p.globals[g] = p.cloneObj(o)
					}
				}
			}
		}
	}
}

func (p *Path) cloneTerm(t *Term) *Term {
	if t == nil {
		return nil
	}
	switch t.Op {
	case OpConst:
		if t.S.K == SBool {
			return p.tc.Bool(t.Val == 1)
		}
		return p.tc.Const(t.S.W, t.Val)
	case OpConstArr:
		return p.tc.ConstArr(t.S.W, p.cloneTerm(t.Args[0]))
	case OpStore:
		return p.tc.Store(p.cloneTerm(t.Args[0]), p.cloneTerm(t.Args[1]), p.cloneTerm(t.Args[2]))
	}
	p.unsupported("non-constant term in initialised global")
	return nil
}

func (p *Path) cloneObj(o *Object) *Object {
	if o == nil {
		return nil
	}
	if c, ok := p.cloneMemo[o]; ok {
		return c
	}
	p.objN++
	c := &Object{ID: p.objN, Typ: o.Typ, Name: o.Name, IsBytes: o.IsBytes, ElemW: o.ElemW, Concrete: o.Concrete, ReadOnly: o.ReadOnly}
	p.cloneMemo[o] = c
	if o.Fields != nil {
		c.Fields = make([]*Object, len(o.Fields))
		for i, f := range o.Fields {
			c.Fields[i] = p.cloneObj(f)
		}
	}
	if o.Elems != nil {
		c.Elems = make([]*Object, len(o.Elems))
		for i, f := range o.Elems {
			c.Elems[i] = p.cloneObj(f)
		}
	}
	if o.IsBytes {
		c.Base = p.cloneTerm(o.Base)
		c.Cap = p.cloneTerm(o.Cap)
		c.Log = make([]logEntry, len(o.Log))
		for i, le := range o.Log {
			c.Log[i] = logEntry{kind: le.kind, idx: p.cloneTerm(le.idx), n: p.cloneTerm(le.n), val: p.cloneTerm(le.val),
				src: p.cloneObj(le.src), srcLen: le.srcLen, srcOff: p.cloneTerm(le.srcOff)}
		}
	}
	if o.Val != nil {
		c.Val = p.cloneValue(o.Val)
	}
	return c
}

func (p *Path) cloneValue(v Value) Value {
	switch x := v.(type) {
	case nil:
		return nil
	case *Term:
		return p.cloneTerm(x)
	case FloatV, Poison:
		return x
	case *PtrV:
		if x.Obj == nil {
			return &PtrV{}
		}
		return &PtrV{Obj: p.cloneObj(x.Obj), Idx: p.cloneTerm(x.Idx), Win: x.Win}
	case *SliceV:
		return &SliceV{Obj: p.cloneObj(x.Obj), Off: p.cloneTerm(x.Off), Len: p.cloneTerm(x.Len), Cap: p.cloneTerm(x.Cap), IsString: x.IsString}
	case *StructV:
		out := &StructV{Typ: x.Typ, Fields: make([]Value, len(x.Fields))}
		for i, f := range x.Fields {
			out.Fields[i] = p.cloneValue(f)
		}
		return out
	case *ArrayV:
		out := &ArrayV{Typ: x.Typ, Elems: make([]Value, len(x.Elems))}
		for i, f := range x.Elems {
			out.Elems[i] = p.cloneValue(f)
		}
		return out
	case *IfaceV:
		if x.Typ == nil {
			return &IfaceV{}
		}
		return &IfaceV{Typ: x.Typ, Val: p.cloneValue(x.Val)}
	case *FuncV:
		if x.Fn == nil && x.Builtin == "" {
			return &FuncV{}
		}
		out := &FuncV{Fn: x.Fn, Builtin: x.Builtin, Bindings: make([]Value, len(x.Bindings))}
		for i, b := range x.Bindings {
			out.Bindings[i] = p.cloneValue(b)
		}
		return out
	case *MapV:
		if x.M == nil {
			return &MapV{}
		}
		if m, ok := p.cloneMaps[x.M]; ok {
			return &MapV{M: m}
		}
		p.objN++
		m := &MapObj{ID: p.objN, Typ: x.M.Typ}
		p.cloneMaps[x.M] = m
		for _, e := range x.M.Entries {
			m.Entries = append(m.Entries, &MapEntry{Key: p.cloneValue(e.Key), Val: p.cloneValue(e.Val), Present: p.cloneTerm(e.Present)})
		}
		return &MapV{M: m}
	case *ChanV:
		if x == nil {
			return (*ChanV)(nil)
		}
		p.objN++
		return &ChanV{ID: p.objN, Name: x.Name, Cap: x.Cap, Closed: x.Closed}
	case TupleV:
		out := make(TupleV, len(x))
		for i, f := range x {
			out[i] = p.cloneValue(f)
		}
		return out
	case *ReflectV:
		return &ReflectV{V: p.cloneValue(x.V)}
	}
	p.unsupported("cannot copy initialised value of kind %T", v)
	return nil
}

var _ = types.Typ
