package main

import (
	"fmt"
	"go/types"
	"strings"

	"golang.org/x/tools/go/ssa"
)

type intrinsicFn func(p *Path, fn *ssa.Function, args []Value) Value

var intrinsics map[string]intrinsicFn
var pkgIntrinsics map[string]func(p *Path, fn *ssa.Function, args []Value) (Value, bool)

const vfPkg = "github.com/mycoria/mycoria/zzvf"

func init() {
	intrinsics = map[string]intrinsicFn{}
	pkgIntrinsics = map[string]func(p *Path, fn *ssa.Function, args []Value) (Value, bool){}
	reg := func(name string, f intrinsicFn) { intrinsics[name] = f }

	// ----- harness API -----
	scalar := func(kind string, w int) intrinsicFn {
		return func(p *Path, fn *ssa.Function, args []Value) Value {
			var t *Term
			if kind == "bool" {
				t = p.fresh("in_"+kind, BoolSort)
			} else {
				t = p.fresh("in_"+kind, BV(w))
			}
			p.addInput(kind, t)
			return t
		}
	}
	reg(vfPkg+".U8", scalar("u8", 8))
	reg(vfPkg+".U16", scalar("u16", 16))
	reg(vfPkg+".U32", scalar("u32", 32))
	reg(vfPkg+".U64", scalar("u64", 64))
	reg(vfPkg+".Int", scalar("int", 64))
	reg(vfPkg+".Bool", scalar("bool", 1))
	reg(vfPkg+".Bytes", func(p *Path, fn *ssa.Function, args []Value) Value {
		n := args[0].(*Term)
		tc := p.tc
		p.assume(tc.Ult(n, tc.Const(64, 1<<24)))
		o := p.newByteStore(types.Typ[types.Uint8], 8, n, true, "in")
		p.inputs = append(p.inputs, &InputRec{Kind: "bytes", obj: o, lenT: n, Name: o.Base.Name, Env: p.inModel()})
		p.pinInput(len(p.inputs) - 1)
		return &SliceV{Obj: o, Off: tc.Const(64, 0), Len: n, Cap: n}
	})
	reg(vfPkg+".Assume", func(p *Path, fn *ssa.Function, args []Value) Value {
		c := args[0].(*Term)
		if p.guard != nil {
			panic(mergeAbort{"assume in merge region"})
		}
		p.assume(c)
		return nil
	})
	reg(vfPkg+".Assert", func(p *Path, fn *ssa.Function, args []Value) Value {
		c := args[0].(*Term)
		tag, _ := p.concreteString(args[1].(*SliceV))
		p.obligation(c, "assert", tag, "assertion "+tag+" violated")
		return nil
	})
	reg(vfPkg+".Reach", func(p *Path, fn *ssa.Function, args []Value) Value {
		tag, _ := p.concreteString(args[0].(*SliceV))
		if p.guard != nil {
			panic(mergeAbort{"reach in merge region"})
		}
		if p.st.Reached == nil {
			p.st.Reached = map[string]bool{}
		}
		p.st.Reached[tag] = true
		return nil
	})
	reg(vfPkg+".Choose", func(p *Path, fn *ssa.Function, args []Value) Value {
		n := args[0].(*Term)
		if !n.IsConst() {
			p.unsupported("vf.Choose with symbolic n")
		}
		k := p.choose(int(n.Val))
		p.inputs = append(p.inputs, &InputRec{Kind: "choose", Val: uint64(k), Env: p.inModel()})
		return p.tc.Const(64, uint64(k))
	})
	reg(vfPkg+".Param", func(p *Path, fn *ssa.Function, args []Value) Value {
		name, _ := p.concreteString(args[0].(*SliceV))
		v, ok := p.h.Params[name]
		if !ok {
			p.unsupported("vf.Param(%q) not configured", name)
		}
		return p.tc.Const(64, uint64(int64(v)))
	})
	reg(vfPkg+".Time", func(p *Path, fn *ssa.Function, args []Value) Value {
		// an arbitrary wall-clock instant without monotonic reading, as time.Unix(sec, nsec).UTC() builds it
		tc := p.tc
		sec := p.fresh("in_int", BV(64))
		p.addInput("int", sec)
		nsec := p.fresh("in_int", BV(64))
		p.addInput("int", nsec)
		p.assume(tc.And(tc.Slt(tc.Const(64, uint64(1<<62)).neg(tc), sec), tc.Slt(sec, tc.Const(64, 1<<40))))
		p.assume(tc.Ult(nsec, tc.Const(64, 1000000000)))
		tt := fn.Signature.Results().At(0).Type()
		return &StructV{Typ: tt, Fields: []Value{nsec, tc.BvAdd(sec, tc.Const(64, 62135596800)), &PtrV{}}}
	})
	reg(vfPkg+".Symbolic", func(p *Path, fn *ssa.Function, args []Value) Value { return p.tc.True })
	reg(vfPkg+".Event", func(p *Path, fn *ssa.Function, args []Value) Value {
		name, _ := p.concreteString(args[0].(*SliceV))
		var evArgs []Value
		if s, ok := args[1].(*SliceV); ok && s.Obj != nil {
			n := int(s.Len.Val)
			off := int(s.Off.Val)
			for i := 0; i < n; i++ {
				evArgs = append(evArgs, p.loadObj(s.Obj.Elems[off+i]))
			}
		}
		if p.guard != nil {
			panic(mergeAbort{"event in merge region"})
		}
		p.events = append(p.events, Event{Name: name, Args: evArgs})
		return nil
	})
	reg(vfPkg+".Count", func(p *Path, fn *ssa.Function, args []Value) Value {
		name, _ := p.concreteString(args[0].(*SliceV))
		n := 0
		for _, e := range p.events {
			if e.Name == name {
				n++
			}
		}
		return p.tc.Const(64, uint64(n))
	})
	reg(vfPkg+".HeldDuring", func(p *Path, fn *ssa.Function, args []Value) Value {
		// HeldDuring(lockPtr, event): every occurrence of event happened while the mutex was held
		iv := args[0].(*IfaceV)
		ptr, ok := iv.Val.(*PtrV)
		if !ok || ptr.Obj == nil {
			p.unsupported("vf.HeldDuring needs a pointer to a mutex")
		}
		name, _ := p.concreteString(args[1].(*SliceV))
		held := 0
		seen := 0
		okAll := true
		for _, e := range p.events {
			switch e.Name {
			case "lock", "rlock":
				if lp, ok := e.Args[0].(*PtrV); ok && lp.Obj == ptr.Obj {
					held++
				}
			case "unlock", "runlock":
				if lp, ok := e.Args[0].(*PtrV); ok && lp.Obj == ptr.Obj {
					held--
				}
			default:
				if e.Name == name {
					seen++
					if held <= 0 {
						okAll = false
					}
				}
			}
		}
		return p.tc.Bool(okAll && held == 0)
	})
	reg(vfPkg+".UF", func(p *Path, fn *ssa.Function, args []Value) Value {
		name, _ := p.concreteString(args[0].(*SliceV))
		return p.tc.UF("uf_"+name, BoolSort, p.variadicTerms(args[1])...)
	})
	reg(vfPkg+".UF64", func(p *Path, fn *ssa.Function, args []Value) Value {
		name, _ := p.concreteString(args[0].(*SliceV))
		return p.tc.UF("uf64_"+name, BV(64), p.variadicTerms(args[1])...)
	})
	reg(vfPkg+".FreshBytes", func(p *Path, fn *ssa.Function, args []Value) Value {
		// fresh symbolic bytes that are NOT inputs (outputs of idealised primitives)
		n := args[0].(*Term)
		o := p.newByteStore(types.Typ[types.Uint8], 8, n, true, "fresh")
		return &SliceV{Obj: o, Off: p.tc.Const(64, 0), Len: n, Cap: n}
	})
	reg(vfPkg+".Havoc", func(p *Path, fn *ssa.Function, args []Value) Value {
		// overwrite b with fresh symbolic bytes
		s := args[0].(*SliceV)
		if s.Obj == nil {
			return nil
		}
		src := p.newByteStore(types.Typ[types.Uint8], 8, s.Len, true, "havoc")
		p.copyElems(s.Obj, s.Off, src, p.tc.Const(64, 0), s.Len)
		return nil
	})
	reg(vfPkg+".First64", func(p *Path, fn *ssa.Function, args []Value) Value {
		s := args[0].(*SliceV)
		if s.Obj == nil || !s.Len.IsConst() || s.Len.Val < 8 {
			return p.tc.Const(64, 0)
		}
		return p.first64(s)
	})
	reg(vfPkg+".Put64", func(p *Path, fn *ssa.Function, args []Value) Value {
		s := args[0].(*SliceV)
		v := args[1].(*Term)
		for i := 0; i < 8; i++ {
			p.writeElem(s.Obj, p.tc.BvAdd(s.Off, p.tc.Const(64, uint64(i))), p.tc.Extract(v, 63-8*i, 56-8*i))
		}
		return nil
	})
	reg(vfPkg+".SameObject", func(p *Path, fn *ssa.Function, args []Value) Value {
		a, b := args[0].(*SliceV), args[1].(*SliceV)
		return p.tc.Bool(a.Obj != nil && a.Obj == b.Obj)
	})
	reg(vfPkg+".ObjID", func(p *Path, fn *ssa.Function, args []Value) Value {
		a := args[0].(*SliceV)
		if a.Obj == nil {
			return p.tc.Const(64, 0)
		}
		return p.tc.Const(64, uint64(a.Obj.ID))
	})
	reg(vfPkg+".Off", func(p *Path, fn *ssa.Function, args []Value) Value {
		return args[0].(*SliceV).Off
	})
	reg(vfPkg+".Note", func(p *Path, fn *ssa.Function, args []Value) Value {
		s, _ := p.concreteString(args[0].(*SliceV))
		p.note(s)
		return nil
	})
	reg(vfPkg+".Stop", func(p *Path, fn *ssa.Function, args []Value) Value {
		p.end("done", "vf.Stop")
		return nil
	})

	// ----- sync -----
	lockEv := func(name string) intrinsicFn {
		return func(p *Path, fn *ssa.Function, args []Value) Value {
			if p.lockEvents {
				if p.guard != nil {
					panic(mergeAbort{"lock event in merge region"})
				}
				acquire := name == "lock" || name == "rlock"
				var mu *Object
				if pv, ok := args[0].(*PtrV); ok {
					mu = pv.Obj
				}
				// vf.Interleave: just before this thread acquires a lock, the registered
				// operation of ANOTHER thread may run to completion (one preemption)
				site := ""
				if acquire && p.interleave != nil && !p.inInterleave {
					// one offer per static lock site (the same critical section entered again
					// in a loop is not a new kind of window)
					site = p.where()
					if p.interleaveSites == nil {
						p.interleaveSites = map[string]bool{}
					}
				}
				if site != "" && !p.interleaveSites[site] {
					p.interleaveSites[site] = true
					k := p.choose(2)
					p.inputs = append(p.inputs, &InputRec{Kind: "choose", Val: uint64(k), Env: p.inModel()})
					if k == 1 {
						fv := p.interleave
						p.interleave = nil
						p.inInterleave = true
						p.events = append(p.events, Event{Name: "interleave.begin"})
						p.invoke(fv, nil, nil)
						p.events = append(p.events, Event{Name: "interleave.end"})
						p.inInterleave = false
					}
				}
				if mu != nil {
					if p.heldLocks == nil {
						p.heldLocks = map[*Object][2]int{}
					}
					h := p.heldLocks[mu]
					who := 0
					if p.inInterleave {
						who = 1
					}
					if acquire {
						if h[1-who] > 0 {
							// the other thread holds it: this one would block here, the schedule is infeasible
							p.end("infeasible", "interleaved operation blocks on a lock the preempted thread holds")
						}
						h[who]++
					} else if h[who] > 0 {
						h[who]--
					}
					p.heldLocks[mu] = h
				}
				p.events = append(p.events, Event{Name: name, Args: args[:1]})
			}
			return nil
		}
	}
	// vf.Interleave(f): f is an operation of another goroutine; it runs, at most once and to
	// completion, just before one of the following lock acquisitions of the calling code
	// (every choice of the acquisition, or never, is explored). Needs lock_events.
	reg(vfPkg+".Interleave", func(p *Path, fn *ssa.Function, args []Value) Value {
		if !p.lockEvents {
			p.unsupported("vf.Interleave needs lock_events in the harness configuration")
		}
		fv, ok := args[0].(*FuncV)
		if !ok || (fv.Fn == nil && fv.Builtin == "") {
			p.interleave = nil
			return nil
		}
		p.interleave = fv
		p.interleaveSites = nil
		return nil
	})
	for _, t := range []string{"Mutex", "RWMutex"} {
		reg("(*sync."+t+").Lock", lockEv("lock"))
		reg("(*sync."+t+").Unlock", lockEv("unlock"))
	}
	reg("(*sync.RWMutex).RLock", lockEv("rlock"))
	reg("(*sync.RWMutex).RUnlock", lockEv("runlock"))
	reg("(*sync.Mutex).TryLock", func(p *Path, fn *ssa.Function, args []Value) Value { return p.tc.True })
	noop := func(p *Path, fn *ssa.Function, args []Value) Value { return p.zeroResults(fn.Signature) }
	for _, n := range []string{"(*sync.WaitGroup).Add", "(*sync.WaitGroup).Done", "(*sync.WaitGroup).Wait", "runtime.KeepAlive", "runtime.Gosched", "runtime.GC", "(*sync.Pool).Put", "runtime.SetFinalizer", "time.Sleep"} {
		reg(n, noop)
	}
	reg("(*sync.Pool).Get", func(p *Path, fn *ssa.Function, args []Value) Value {
		ptr := args[0].(*PtrV)
		st := ptr.Obj.Typ.Underlying().(*types.Struct)
		for i := 0; i < st.NumFields(); i++ {
			if st.Field(i).Name() == "New" {
				nf := ptr.Obj.Fields[i].Val
				if fv, ok := nf.(*FuncV); ok && (fv.Fn != nil || fv.Builtin != "") {
					return p.invoke(fv, nil, nil)
				}
			}
		}
		return &IfaceV{}
	})
	reg("(*sync.Once).Do", func(p *Path, fn *ssa.Function, args []Value) Value {
		ptr := args[0].(*PtrV)
		if ptr.Obj.Ghost == nil {
			ptr.Obj.Ghost = map[string]Value{}
		}
		if _, done := ptr.Obj.Ghost["done"]; done {
			return nil
		}
		ptr.Obj.Ghost["done"] = p.tc.True
		p.invoke(args[1], nil, nil)
		return nil
	})

	// ----- sync/atomic (sequential semantics) -----
	for _, ty := range []string{"Int32", "Int64", "Uint32", "Uint64", "Uintptr"} {
		ty := ty
		reg("sync/atomic.Load"+ty, func(p *Path, fn *ssa.Function, args []Value) Value {
			ptr := args[0].(*PtrV)
			p.nilCheck(ptr, "atomic load through nil")
			return p.load(ptr, fn.Signature.Results().At(0).Type())
		})
		reg("sync/atomic.Store"+ty, func(p *Path, fn *ssa.Function, args []Value) Value {
			ptr := args[0].(*PtrV)
			p.nilCheck(ptr, "atomic store through nil")
			p.store(ptr, args[1])
			return nil
		})
		reg("sync/atomic.Add"+ty, func(p *Path, fn *ssa.Function, args []Value) Value {
			ptr := args[0].(*PtrV)
			p.nilCheck(ptr, "atomic add through nil")
			if p.lockEvents {
				if p.guard != nil {
					panic(mergeAbort{"lock event in merge region"})
				}
				p.events = append(p.events, Event{Name: "atomic.add", Args: args[:1]})
			}
			old := p.load(ptr, fn.Signature.Results().At(0).Type()).(*Term)
			nv := p.tc.BvAdd(old, args[1].(*Term))
			p.store(ptr, nv)
			return nv
		})
		reg("sync/atomic.Swap"+ty, func(p *Path, fn *ssa.Function, args []Value) Value {
			ptr := args[0].(*PtrV)
			p.nilCheck(ptr, "atomic swap through nil")
			old := p.load(ptr, fn.Signature.Results().At(0).Type())
			p.store(ptr, args[1])
			return old
		})
		reg("sync/atomic.CompareAndSwap"+ty, func(p *Path, fn *ssa.Function, args []Value) Value {
			ptr := args[0].(*PtrV)
			p.nilCheck(ptr, "atomic cas through nil")
			old := p.load(ptr, fn.Signature.Params().At(1).Type()).(*Term)
			eq := p.tc.Eq(old, args[1].(*Term))
			p.store(ptr, p.tc.Ite(eq, args[2].(*Term), old))
			return eq
		})
	}

	// ----- errors / fmt -----
	reg("errors.Is", func(p *Path, fn *ssa.Function, args []Value) Value {
		return p.errorsIs(args[0], args[1], 0)
	})
	reg("fmt.Errorf", func(p *Path, fn *ssa.Function, args []Value) Value {
		format, _ := p.concreteString(args[0].(*SliceV))
		var wrapped *IfaceV
		if strings.Contains(format, "%w") {
			if s, ok := args[1].(*SliceV); ok && s.Obj != nil {
				n := int(s.Len.Val)
				off := int(s.Off.Val)
				errT := types.Universe.Lookup("error").Type().Underlying().(*types.Interface)
				for i := 0; i < n && wrapped == nil; i++ {
					if iv, ok := p.loadObj(s.Obj.Elems[off+i]).(*IfaceV); ok && iv.Typ != nil && types.Implements(iv.Typ, errT) {
						wrapped = iv
					}
				}
			}
		}
		if wrapped != nil {
			wt := p.eng.namedType("fmt", "wrapError")
			if wt == nil {
				p.unsupported("fmt.wrapError not found")
			}
			o := p.newObject(wt, "wrapError")
			o.Fields[0].Val = p.constString(format)
			o.Fields[1].Val = wrapped
			return &IfaceV{Typ: types.NewPointer(wt), Val: &PtrV{Obj: o}}
		}
		return p.sentinelError("fmt.Errorf:" + format)
	})
	fmtStr := func(p *Path, fn *ssa.Function, args []Value) Value { return p.constString("<formatted>") }
	reg("fmt.Sprintf", fmtStr)
	reg("fmt.Sprint", fmtStr)
	reg("fmt.Sprintln", fmtStr)
	for _, n := range []string{"fmt.Println", "fmt.Printf", "fmt.Print", "fmt.Fprintf", "fmt.Fprintln", "fmt.Fprint"} {
		reg(n, noop)
	}

	// ----- time (summarised: no division by 10^3/10^6/10^9 reaches the solver) -----
	reg("(time.Time).UnixMilli", func(p *Path, fn *ssa.Function, args []Value) Value {
		t := args[0].(*StructV)
		wall, ext := t.Fields[0].(*Term), t.Fields[1].(*Term)
		if wall.IsConst() && ext.IsConst() && wall.Val&(1<<63) == 0 {
			sec := int64(ext.Val) - 62135596800
			return p.tc.Const(64, uint64(sec*1000+int64(wall.Val&(1<<30-1))/1000000))
		}
		p.note("time.Time.UnixMilli summarised as an uninterpreted function of the instant (inverse of time.UnixMilli)")
		return p.tc.UF("time_unixmilli", BV(64), wall, ext)
	})
	reg("time.UnixMilli", func(p *Path, fn *ssa.Function, args []Value) Value {
		ms := args[0].(*Term)
		tc := p.tc
		tt := fn.Signature.Results().At(0).Type()
		if ms.IsConst() {
			v := ms.SignedVal()
			sec, rem := v/1000, v%1000
			if rem < 0 {
				rem += 1000
				sec--
			}
			return &StructV{Typ: tt, Fields: []Value{tc.Const(64, uint64(rem*1000000)), tc.Const(64, uint64(sec+62135596800)), &PtrV{}}}
		}
		p.note("time.UnixMilli summarised: result fields are uninterpreted functions of the argument, with UnixMilli(UnixMilli(ms)) == ms")
		wall := tc.BvAnd(tc.UF("ms_wall", BV(64), ms), tc.Const(64, 1<<30-1))
		ext := tc.UF("ms_ext", BV(64), ms)
		if p.guard == nil {
			p.assertPC(tc.Eq(tc.UF("time_unixmilli", BV(64), wall, ext), ms))
			// injectivity on the instant: different ms give different instants
		}
		return &StructV{Typ: tt, Fields: []Value{wall, ext, &PtrV{}}}
	})
	reg("time.Now", func(p *Path, fn *ssa.Function, args []Value) Value {
		tc := p.tc
		sec := p.nowSec()
		tt := fn.Signature.Results().At(0).Type()
		return &StructV{Typ: tt, Fields: []Value{tc.Const(64, 0), tc.BvAdd(sec, tc.Const(64, 62135596800)), &PtrV{}}}
	})

	// time.Since / time.Until: the duration is a fresh value tied to the whole-second
	// difference by exact threshold lemmas (no 64-bit multiplication by 10^9 reaches the solver)
	sinceUntil := func(until bool) intrinsicFn {
		return func(p *Path, fn *ssa.Function, args []Value) Value {
			tc := p.tc
			nowSec := p.nowSec()
			t := args[0].(*StructV)
			wall, ext := t.Fields[0].(*Term), t.Fields[1].(*Term)
			// whole-second instants only
			if p.guard != nil {
				panic(mergeAbort{"time.Since in merge region"})
			}
			p.assume(tc.Eq(tc.BvAnd(wall, tc.Const(64, 1<<30-1)), tc.Const(64, 0)))
			p.assume(tc.Eq(tc.BvAnd(wall, tc.Const(64, 1<<63)), tc.Const(64, 0)))
			p.note("time.Since/Until: instants are whole seconds; the duration is exact at the thresholds 0, 1s, 1m, 10m, 1h, 24h and unconstrained in between")
			tsec := tc.BvSub(ext, tc.Const(64, 62135596800))
			var sdiff *Term
			if until {
				sdiff = tc.BvSub(tsec, nowSec)
			} else {
				sdiff = tc.BvSub(nowSec, tsec)
			}
			p.assume(tc.And(tc.Slt(tc.Const(64, uint64(1<<33)).neg(tc), sdiff), tc.Slt(sdiff, tc.Const(64, 1<<33))))
			d := p.fresh("dur", BV(64))
			for _, ks := range []int64{0, 1, 60, 600, 3600, 86400} {
				k := tc.Const(64, uint64(ks*1000000000))
				kk := tc.Const(64, uint64(ks))
				p.assertPC(tc.Eq(tc.Slt(k, d), tc.Slt(kk, sdiff)))
				p.assertPC(tc.Eq(tc.Slt(d, k), tc.Slt(sdiff, kk)))
			}
			return d
		}
	}
	reg("time.Since", sinceUntil(false))
	reg("time.Until", sinceUntil(true))
	reg(vfPkg+".TimeSec", func(p *Path, fn *ssa.Function, args []Value) Value {
		// an arbitrary whole-second wall-clock instant (or the zero Time when the harness says so)
		tc := p.tc
		sec := p.fresh("in_int", BV(64))
		p.addInput("int", sec)
		p.assume(tc.And(tc.Slt(tc.Const(64, 0), sec), tc.Slt(sec, tc.Const(64, 1<<40))))
		tt := fn.Signature.Results().At(0).Type()
		return &StructV{Typ: tt, Fields: []Value{tc.Const(64, 0), tc.BvAdd(sec, tc.Const(64, 62135596800)), &PtrV{}}}
	})
	reg("time.After", func(p *Path, fn *ssa.Function, args []Value) Value {
		// a timer channel that may fire: one buffered tick (select explores both outcomes)
		p.objN++
		tt := fn.Signature.Results().At(0).Type().Underlying().(*types.Chan).Elem()
		return &ChanV{ID: p.objN, Name: "timer", Cap: 1, Buf: []Value{p.zero(tt)}}
	})

	// ----- reflect (only the nil test used by mgr.NewGroup) -----
	reg("reflect.ValueOf", func(p *Path, fn *ssa.Function, args []Value) Value {
		return &ReflectV{V: args[0]}
	})
	reg("(reflect.Value).IsNil", func(p *Path, fn *ssa.Function, args []Value) Value {
		rv, ok := args[0].(*ReflectV)
		if !ok {
			p.unsupported("reflect.Value.IsNil on a value not produced by reflect.ValueOf")
		}
		iv, ok := rv.V.(*IfaceV)
		if !ok || iv.Typ == nil {
			p.obligation(p.tc.False, "panic", "reflect-isnil", "reflect: call of reflect.Value.IsNil on zero Value")
			p.end("gopanic", "reflect IsNil on zero Value")
		}
		switch x := iv.Val.(type) {
		case *PtrV:
			return p.tc.Bool(x.Obj == nil)
		case *MapV:
			return p.tc.Bool(x.M == nil)
		case *SliceV:
			return p.tc.Bool(x.Obj == nil)
		case *FuncV:
			return p.tc.Bool(x.Fn == nil && x.Builtin == "")
		case *ChanV:
			return p.tc.Bool(x == nil)
		case *IfaceV:
			return p.tc.Bool(x.Typ == nil)
		}
		p.obligation(p.tc.False, "panic", "reflect-isnil", "reflect: call of reflect.Value.IsNil on non-nillable value")
		p.end("gopanic", "reflect IsNil on non-nillable")
		return nil
	})

	// ----- crypto/rand -----
	randRead := func(p *Path, fn *ssa.Function, args []Value) Value {
		s := args[len(args)-1].(*SliceV)
		if s.Obj != nil {
			src := p.newByteStore(types.Typ[types.Uint8], 8, s.Len, true, "rand")
			p.copyElems(s.Obj, s.Off, src, p.tc.Const(64, 0), s.Len)
		}
		return TupleV{s.Len, &IfaceV{}}
	}
	reg("crypto/rand.Read", randRead)

	// ----- internal/bytealg (concrete or small) -----
	reg("internal/bytealg.IndexByteString", func(p *Path, fn *ssa.Function, args []Value) Value {
		return p.indexByte(args[0].(*SliceV), args[1].(*Term))
	})
	reg("internal/bytealg.IndexByte", func(p *Path, fn *ssa.Function, args []Value) Value {
		return p.indexByte(args[0].(*SliceV), args[1].(*Term))
	})
	reg("internal/bytealg.Equal", func(p *Path, fn *ssa.Function, args []Value) Value {
		return p.stringEq(args[0].(*SliceV), args[1].(*SliceV))
	})
	reg("bytes.Equal", func(p *Path, fn *ssa.Function, args []Value) Value {
		return p.stringEq(args[0].(*SliceV), args[1].(*SliceV))
	})
	reg("internal/bytealg.CountString", func(p *Path, fn *ssa.Function, args []Value) Value {
		s, ok := p.concreteString(args[0].(*SliceV))
		c := args[1].(*Term)
		if !ok || !c.IsConst() {
			p.unsupported("bytealg.CountString on symbolic data")
		}
		return p.tc.Const(64, uint64(strings.Count(s, string([]byte{byte(c.Val)}))))
	})
	reg("internal/bytealg.IndexString", func(p *Path, fn *ssa.Function, args []Value) Value {
		a, ok1 := p.concreteString(args[0].(*SliceV))
		b, ok2 := p.concreteString(args[1].(*SliceV))
		if !ok1 || !ok2 {
			p.unsupported("bytealg.IndexString on symbolic data")
		}
		return p.tc.Const(64, uint64(int64(strings.Index(a, b))))
	})
	reg("internal/bytealg.CompareString", func(p *Path, fn *ssa.Function, args []Value) Value {
		a, ok1 := p.concreteString(args[0].(*SliceV))
		b, ok2 := p.concreteString(args[1].(*SliceV))
		if !ok1 || !ok2 {
			p.unsupported("bytealg.CompareString on symbolic data")
		}
		return p.tc.Const(64, uint64(int64(strings.Compare(a, b))))
	})
	reg("strings.ToLower", func(p *Path, fn *ssa.Function, args []Value) Value {
		a, ok := p.concreteString(args[0].(*SliceV))
		if !ok {
			p.unsupported("strings.ToLower on symbolic data")
		}
		return p.constString(strings.ToLower(a))
	})
	reg("strings.ToUpper", func(p *Path, fn *ssa.Function, args []Value) Value {
		a, ok := p.concreteString(args[0].(*SliceV))
		if !ok {
			p.unsupported("strings.ToUpper on symbolic data")
		}
		return p.constString(strings.ToUpper(a))
	})
	reg("crypto/internal/constanttime.boolToUint8", func(p *Path, fn *ssa.Function, args []Value) Value {
		return p.tc.Ite(args[0].(*Term), p.tc.Const(8, 1), p.tc.Const(8, 0))
	})
	reg("slices.overlaps", func(p *Path, fn *ssa.Function, args []Value) Value {
		a, b := args[0].(*SliceV), args[1].(*SliceV)
		if a.Obj == nil || b.Obj == nil || a.Obj != b.Obj {
			return p.tc.False
		}
		tc := p.tc
		// same backing store: [aOff, aOff+aLen) and [bOff, bOff+bLen) intersect
		return tc.And(tc.And(tc.Ult(tc.Const(64, 0), a.Len), tc.Ult(tc.Const(64, 0), b.Len)),
			tc.And(tc.Ult(a.Off, tc.BvAdd(b.Off, b.Len)), tc.Ult(b.Off, tc.BvAdd(a.Off, a.Len))))
	})
	reg("internal/abi.NoEscape", func(p *Path, fn *ssa.Function, args []Value) Value { return args[0] })
	reg("internal/abi.Escape", func(p *Path, fn *ssa.Function, args []Value) Value { return args[0] })
	reg("crypto/internal/fips140/subtle.ConstantTimeCompare", nil)
	delete(intrinsics, "crypto/internal/fips140/subtle.ConstantTimeCompare")

	// logging packages: every function is a no-op returning zero values
	for _, pk := range []string{"log/slog", "log"} {
		pkgIntrinsics[pk] = func(p *Path, fn *ssa.Function, args []Value) (Value, bool) {
			return p.zeroResults(fn.Signature), true
		}
	}
}

func (p *Path) variadicTerms(v Value) []*Term {
	s, ok := v.(*SliceV)
	if !ok || s.Obj == nil {
		return nil
	}
	n := int(s.Len.Val)
	out := make([]*Term, n)
	for i := 0; i < n; i++ {
		out[i] = p.readElem(s.Obj, p.tc.BvAdd(s.Off, p.tc.Const(64, uint64(i))))
	}
	return out
}

func (p *Path) indexByte(s *SliceV, c *Term) Value {
	tc := p.tc
	if !s.Len.IsConst() {
		p.unsupported("IndexByte on symbolic-length data")
	}
	n := int(s.Len.Val)
	res := tc.Const(64, ^uint64(0))
	for i := n - 1; i >= 0; i-- {
		b := p.readElem(s.Obj, tc.BvAdd(s.Off, tc.Const(64, uint64(i))))
		res = tc.Ite(tc.Eq(b, c), tc.Const(64, uint64(i)), res)
	}
	return res
}

func (p *Path) errorsIs(err, target Value, depth int) *Term {
	tc := p.tc
	e, ok := err.(*IfaceV)
	if !ok {
		p.unsupported("errors.Is on %T", err)
	}
	t := target.(*IfaceV)
	if depth > 16 {
		return tc.False
	}
	if e.Typ == nil || t.Typ == nil {
		return tc.Bool(e.Typ == nil && t.Typ == nil)
	}
	if types.Identical(e.Typ, t.Typ) && types.Comparable(e.Typ) {
		eq := p.valueEq(e.Val, t.Val)
		if eq.IsTrue() {
			return eq
		}
		if !eq.IsFalse() {
			rest := p.errorsIsUnwrap(e, target, depth)
			return tc.Or(eq, rest)
		}
	}
	return p.errorsIsUnwrap(e, target, depth)
}

func (p *Path) errorsIsUnwrap(e *IfaceV, target Value, depth int) *Term {
	ms := p.eng.prog.MethodSets.MethodSet(e.Typ)
	for i := 0; i < ms.Len(); i++ {
		sel := ms.At(i)
		if sel.Obj().Name() != "Unwrap" {
			continue
		}
		sig := sel.Type().(*types.Signature)
		if sig.Params().Len() != 0 || sig.Results().Len() != 1 {
			continue
		}
		fn := p.eng.prog.MethodValue(sel)
		if fn == nil {
			continue
		}
		r := p.callFunction(fn, []Value{e.Val}, nil, nil)
		switch rv := r.(type) {
		case *IfaceV:
			if rv.Typ == nil {
				return p.tc.False
			}
			return p.errorsIs(rv, target, depth+1)
		case *SliceV:
			res := p.tc.False
			if rv.Obj != nil {
				n := int(rv.Len.Val)
				off := int(rv.Off.Val)
				for k := 0; k < n; k++ {
					res = p.tc.Or(res, p.errorsIs(p.loadObj(rv.Obj.Elems[off+k]), target, depth+1))
				}
			}
			return res
		}
	}
	return p.tc.False
}

var _ = fmt.Sprintf

// nowSec reads the clock: arbitrary non-decreasing instants with one-second
// granularity (sub-second parts make every later comparison a 64-bit
// bit-twiddling chain that the solver does not finish; all timeouts in the
// code are whole seconds).
func (p *Path) nowSec() *Term {
	tc := p.tc
	sec := p.fresh("now_sec", BV(64))
	p.inputs = append(p.inputs, &InputRec{Kind: "int", term: sec, Name: sec.Name, Env: true})
	p.pinInput(len(p.inputs) - 1)
	if p.guard != nil {
		panic(mergeAbort{"time.Now in merge region"})
	}
	p.note("time.Now = arbitrary non-decreasing instants, whole seconds")
	p.assertPC(tc.And(tc.Slt(tc.Const(64, 0), sec), tc.Slt(sec, tc.Const(64, 1<<40))))
	if last, ok := p.ghost["now"]; ok {
		p.assertPC(tc.Sle(last.(*Term), sec))
	}
	if p.ghost == nil {
		p.ghost = map[string]Value{}
	}
	if span, ok := p.h.Params["clock_span_s"]; ok {
		// the whole harness run takes at most span seconds of wall-clock time
		if first, ok := p.ghost["now0"]; ok {
			p.assertPC(tc.Sle(sec, tc.BvAdd(first.(*Term), tc.Const(64, uint64(span)))))
		} else {
			p.ghost["now0"] = sec
		}
		p.note(fmt.Sprintf("all time.Now readings of one run lie within %d s", span))
	}
	p.ghost["now"] = sec
	return sec
}
