package main

// Solver layer: one persistent SMT-LIB2 process per worker (incremental,
// push/pop) with a short per-query budget, and a one-shot non-incremental
// fallback process for the queries the incremental core does not finish
// (z3's incremental mode skips the bit-blasting tactics that decide the
// linear length/offset arithmetic in milliseconds). No set-logic (z3 4.8.12
// drops `as const` under QF_ABV). Any "(error" line makes the answer
// inconclusive.

import (
	"bufio"
	"fmt"
	"io"
	"os"
	"os/exec"
	"strconv"
	"strings"
	"time"
)

type SolverStats struct {
	Queries   int
	Sat       int
	Unsat     int
	Unknown   int
	Fallbacks int
	Time      time.Duration
	MaxQuery  time.Duration
}

type proc struct {
	cmd *exec.Cmd
	in  io.WriteCloser
	out *bufio.Reader
	log io.Writer
}

func startProc(argv []string) (*proc, error) {
	p := &proc{}
	p.cmd = exec.Command(argv[0], argv[1:]...)
	var err error
	p.in, err = p.cmd.StdinPipe()
	if err != nil {
		return nil, err
	}
	o, err := p.cmd.StdoutPipe()
	if err != nil {
		return nil, err
	}
	p.cmd.Stderr = p.cmd.Stdout
	p.out = bufio.NewReaderSize(o, 1<<20)
	if err := p.cmd.Start(); err != nil {
		return nil, err
	}
	return p, nil
}

func (p *proc) send(txt string) {
	if p.log != nil {
		io.WriteString(p.log, txt)
	}
	io.WriteString(p.in, txt)
}

func (p *proc) close() {
	if p.cmd != nil {
		p.in.Close()
		p.cmd.Process.Kill()
		p.cmd.Wait()
		p.cmd = nil
	}
}

func (p *proc) readUntilDone() ([]string, string) {
	var lines []string
	errtxt := ""
	for {
		l, err := p.out.ReadString('\n')
		if err != nil {
			return lines, "solver died: " + err.Error()
		}
		l = strings.TrimRight(l, "\r\n")
		if l == "<<done>>" || l == "\"<<done>>\"" {
			return lines, errtxt
		}
		if strings.Contains(l, "(error") {
			errtxt += l + "\n"
		}
		lines = append(lines, l)
	}
}

type Solver struct {
	name     string
	main     *proc
	p        *printer
	ctx      *TermCtx
	Stats    SolverStats
	quickMs  int // budget of the incremental attempt
	fullMs   int // budget of the one-shot fallback
	fallback []string
	log      io.Writer
	ctxText  strings.Builder // everything asserted/declared outside push scopes since the last reset
	hard     int             // recent incremental attempts that timed out (adaptive: go one-shot directly)
}

func solverArgv(name string, timeoutMs int) []string {
	switch name {
	case "z3":
		return []string{"z3", "-in", "-t:" + strconv.Itoa(timeoutMs)}
	case "z3-new":
		return []string{"z3-new", "-in", "-t:" + strconv.Itoa(timeoutMs)}
	case "cvc5":
		return []string{"cvc5", "--incremental", "--lang=smt2", "--produce-models", "--tlimit-per=" + strconv.Itoa(timeoutMs)}
	}
	panic("unknown solver " + name)
}

var primarySolver = "z3"
var fallbackSolvers = []string{"z3-new", "z3"}

func NewSolver(name string, ctx *TermCtx, timeoutMs int) (*Solver, error) {
	s := &Solver{name: name, ctx: ctx, fullMs: timeoutMs, quickMs: 250, fallback: fallbackSolvers}
	if s.quickMs > timeoutMs {
		s.quickMs = timeoutMs
	}
	var err error
	s.main, err = startProc(solverArgv(name, s.quickMs))
	if err != nil {
		return nil, err
	}
	s.resetPrinter()
	s.main.send("(set-option :produce-models true)\n")
	return s, nil
}

func (s *Solver) resetPrinter() {
	s.p = &printer{defined: map[int]bool{}, declared: map[string]bool{}, pre: &strings.Builder{}, ctx: s.ctx}
	s.ctxText.Reset()
}

func (s *Solver) Close() {
	if s.main != nil {
		s.main.close()
		s.main = nil
	}
}

// sendCtx sends text that belongs to the persistent context.
func (s *Solver) sendCtx(txt string) {
	s.ctxText.WriteString(txt)
	s.main.log = s.log
	s.main.send(txt)
}

// Reset drops all assertions, declarations and definitions.
func (s *Solver) Reset() {
	s.main.log = s.log
	s.main.send("(reset)\n(set-option :produce-models true)\n")
	s.resetPrinter()
	s.hard = 0
}

func (s *Solver) Assert(t *Term) {
	if t.IsTrue() {
		return
	}
	r := s.p.ref(t)
	s.flushPreCtx()
	s.sendCtx("(assert " + r + ")\n")
}

func (s *Solver) flushPreCtx() {
	if s.p.pre.Len() > 0 {
		s.sendCtx(s.p.pre.String())
		s.p.pre.Reset()
	}
}

var dumpN int

type SatResult int

const (
	Unsat SatResult = iota
	Sat
	Unknown
)

func (r SatResult) String() string { return [...]string{"unsat", "sat", "unknown"}[r] }

// CheckWith checks satisfiability of the asserted path condition plus extra.
func (s *Solver) CheckWith(extra *Term, modelOf []*Term) (SatResult, []uint64, string) {
	var vals []uint64
	r, _, e := s.CheckWithModel(extra, func(get func([]*Term) []uint64) {
		if len(modelOf) > 0 {
			vals = get(modelOf)
		}
	})
	return r, vals, e
}

func parseSat(lines []string, errtxt string) SatResult {
	res := Unknown
	for _, l := range lines {
		switch strings.TrimSpace(l) {
		case "sat":
			res = Sat
		case "unsat":
			res = Unsat
		case "unknown", "timeout":
			res = Unknown
		}
	}
	if errtxt != "" {
		res = Unknown
	}
	return res
}

// CheckWithModel checks PC ∧ extra; on sat, onSat may query model values
// (inside the same scope) through get.
func (s *Solver) CheckWithModel(extra *Term, onSat func(get func([]*Term) []uint64)) (SatResult, []uint64, string) {
	start := time.Now()
	var r string
	if extra != nil {
		r = s.p.ref(extra)
	}
	s.flushPreCtx()
	pr := s.main
	pr.log = s.log
	pr.send("(push 1)\n")
	s.p.journal = []string{}
	s.p.inScope = true
	if extra != nil {
		pr.send("(assert " + r + ")\n")
	}
	var lines []string
	var errtxt string
	res := Unknown
	skipInc := s.hard >= 3 && extra != nil && extra.size > 400
	if !skipInc {
		pr.send("(check-sat)\n(echo \"<<done>>\")\n")
		lines, errtxt = pr.readUntilDone()
		res = parseSat(lines, errtxt)
		if res == Unknown {
			s.hard++
		} else if s.hard > 0 {
			s.hard--
		}
	}
	var one *proc
	if res == Unknown && !strings.Contains(errtxt, "solver died") {
		// one-shot, non-incremental fallback on the full context
		for _, fb := range s.fallback {
			if one != nil {
				one.close()
				one = nil
			}
			var err error
			one, err = startProc(solverArgv(fb, s.fullMs))
			if err != nil {
				continue
			}
			s.Stats.Fallbacks++
			one.send("(set-option :produce-models true)\n")
			one.send(s.ctxText.String())
			if extra != nil {
				one.send("(assert " + r + ")\n")
			}
			one.send("(check-sat)\n(echo \"<<done>>\")\n")
			l2, e2 := one.readUntilDone()
			res = parseSat(l2, e2)
			errtxt = e2
			if res != Unknown {
				pr = one
				break
			}
		}
	}
	if res == Sat && onSat != nil {
		get := func(ts []*Term) []uint64 {
			vals := make([]uint64, len(ts))
			const chunk = 256
			for i := 0; i < len(ts); i += chunk {
				j := i + chunk
				if j > len(ts) {
					j = len(ts)
				}
				var refs []string
				for _, t := range ts[i:j] {
					refs = append(refs, s.p.ref(t))
				}
				if s.p.pre.Len() > 0 {
					// scoped helper definitions: needed by whichever process answers
					pr.send(s.p.pre.String())
					if pr != s.main {
						s.main.send(s.p.pre.String())
					}
					s.p.pre.Reset()
				}
				pr.send("(get-value (" + strings.Join(refs, " ") + "))\n(echo \"<<done>>\")\n")
				ls, e2 := pr.readUntilDone()
				if e2 != "" {
					errtxt += e2
					res = Unknown
					return vals
				}
				got := parseValues(strings.Join(ls, "\n"))
				if len(got) != j-i {
					errtxt += fmt.Sprintf("get-value: expected %d values, got %d: %s", j-i, len(got), strings.Join(ls, " "))
					res = Unknown
					return vals
				}
				copy(vals[i:j], got)
			}
			return vals
		}
		onSat(get)
	}
	if one != nil {
		one.close()
	}
	if res == Unknown {
		if dir := os.Getenv("GOSMT_DUMP_UNKNOWN"); dir != "" {
			dumpN++
			os.WriteFile(fmt.Sprintf("%s/unknown_%d_%d.smt2", dir, os.Getpid(), dumpN), []byte(s.ctxText.String()+"(assert "+r+")\n(check-sat)\n"), 0o644)
		}
	}
	s.main.send("(pop 1)\n")
	for _, k := range s.p.journal {
		if strings.HasPrefix(k, "#") {
			id, _ := strconv.Atoi(k[1:])
			delete(s.p.defined, id)
		} else {
			delete(s.p.declared, k)
		}
	}
	s.p.inScope = false
	s.p.journal = nil
	d := time.Since(start)
	s.Stats.Queries++
	s.Stats.Time += d
	if d > s.Stats.MaxQuery {
		s.Stats.MaxQuery = d
	}
	switch res {
	case Sat:
		s.Stats.Sat++
	case Unsat:
		s.Stats.Unsat++
	default:
		s.Stats.Unknown++
	}
	return res, nil, errtxt
}

// parseValues extracts the value literals, in order, from a get-value reply
// "((t1 #x00) (t2 true) ((select a i) #b01) ...)".
func parseValues(s string) []uint64 {
	var out []uint64
	depth := 0
	i := 0
	lastTok := ""
	lastTok2 := "" // for (_ bvN W)
	for i < len(s) {
		ch := s[i]
		switch {
		case ch == '(':
			depth++
			i++
		case ch == ')':
			if depth == 2 {
				out = append(out, parseLit(lastTok, lastTok2))
			}
			depth--
			i++
		case ch == ' ' || ch == '\n' || ch == '\t':
			i++
		default:
			j := i
			for j < len(s) && s[j] != ' ' && s[j] != '(' && s[j] != ')' && s[j] != '\n' {
				j++
			}
			lastTok2 = lastTok
			lastTok = s[i:j]
			i = j
		}
	}
	return out
}

func parseLit(tok, prev string) uint64 {
	switch {
	case tok == "true":
		return 1
	case tok == "false":
		return 0
	case strings.HasPrefix(tok, "#x"):
		v, _ := strconv.ParseUint(tok[2:], 16, 64)
		return v
	case strings.HasPrefix(tok, "#b"):
		v, _ := strconv.ParseUint(tok[2:], 2, 64)
		return v
	case strings.HasPrefix(prev, "bv"):
		v, _ := strconv.ParseUint(prev[2:], 10, 64)
		return v
	}
	return 0
}
