package main

// Solver layer: one persistent SMT-LIB2 process per worker (z3 -in by default).
// No set-logic (z3 4.8.12 drops `as const` under QF_ABV). Any "(error" line makes
// the answer inconclusive.

import (
	"bufio"
	"fmt"
	"io"
	"os/exec"
	"strconv"
	"strings"
	"time"
)

type SolverStats struct {
	Queries   int
	Sat       int
	Unsat     int
	Unknown   int
	Time      time.Duration
	MaxQuery  time.Duration
	CrossRuns int
}

type Solver struct {
	name    string
	cmd     *exec.Cmd
	in      io.WriteCloser
	out     *bufio.Reader
	p       *printer
	ctx     *TermCtx
	Stats   SolverStats
	timeout int // ms per query
	log     io.Writer
	// assertion stack mirror (for cross-checking on a second solver)
	asserted []*Term
	marks    []int
}

func solverArgv(name string, timeoutMs int) []string {
	switch name {
	case "z3":
		return []string{"z3", "-in", "-t:" + strconv.Itoa(timeoutMs)}
	case "z3-new":
		return []string{"z3-new", "-in", "-t:" + strconv.Itoa(timeoutMs)}
	case "cvc5":
		return []string{"cvc5", "--incremental", "--lang=smt2", "--produce-models", "--tlimit-per=" + strconv.Itoa(timeoutMs)}
	}
	panic("unknown solver " + name)
}

func NewSolver(name string, ctx *TermCtx, timeoutMs int) (*Solver, error) {
	s := &Solver{name: name, ctx: ctx, timeout: timeoutMs}
	if err := s.start(); err != nil {
		return nil, err
	}
	return s, nil
}

func (s *Solver) start() error {
	argv := solverArgv(s.name, s.timeout)
	s.cmd = exec.Command(argv[0], argv[1:]...)
	var err error
	s.in, err = s.cmd.StdinPipe()
	if err != nil {
		return err
	}
	o, err := s.cmd.StdoutPipe()
	if err != nil {
		return err
	}
	s.cmd.Stderr = s.cmd.Stdout
	s.out = bufio.NewReaderSize(o, 1<<20)
	if err := s.cmd.Start(); err != nil {
		return err
	}
	s.resetPrinter()
	s.send("(set-option :produce-models true)\n")
	if s.name == "cvc5" {
		s.send("(set-logic ALL)\n")
	}
	return nil
}

func (s *Solver) resetPrinter() {
	s.p = &printer{defined: map[int]bool{}, declared: map[string]bool{}, pre: &strings.Builder{}, ctx: s.ctx}
	s.asserted = nil
	s.marks = nil
}

func (s *Solver) Close() {
	if s.cmd != nil {
		s.in.Close()
		s.cmd.Process.Kill()
		s.cmd.Wait()
		s.cmd = nil
	}
}

func (s *Solver) send(txt string) {
	if s.log != nil {
		io.WriteString(s.log, txt)
	}
	io.WriteString(s.in, txt)
}

// Reset drops all assertions, declarations and definitions.
func (s *Solver) Reset() {
	if s.name == "cvc5" {
		// cvc5 (reset) also forgets options; restart cheaply
		s.send("(reset)\n(set-option :produce-models true)\n(set-option :incremental true)\n(set-logic ALL)\n")
	} else {
		s.send("(reset)\n(set-option :produce-models true)\n")
	}
	s.resetPrinter()
}

// Declarations made inside a push scope would be lost on pop, so all
// declare/define commands are emitted at the outermost level: we only
// push/pop around a single check (assert goal; check-sat), and terms needed by
// the goal are defined before the push.

func (s *Solver) Assert(t *Term) {
	if t.IsTrue() {
		return
	}
	r := s.p.ref(t)
	s.flushPre()
	s.send("(assert " + r + ")\n")
	s.asserted = append(s.asserted, t)
}

func (s *Solver) flushPre() {
	if s.p.pre.Len() > 0 {
		s.send(s.p.pre.String())
		s.p.pre.Reset()
	}
}

type SatResult int

const (
	Unsat SatResult = iota
	Sat
	Unknown
)

func (r SatResult) String() string { return [...]string{"unsat", "sat", "unknown"}[r] }

// CheckWith checks satisfiability of the asserted path condition plus extra.
func (s *Solver) CheckWith(extra *Term, modelOf []*Term) (SatResult, []uint64, string) {
	var vals []uint64
	r, _, e := s.CheckWithModel(extra, func(get func([]*Term) []uint64) {
		if len(modelOf) > 0 {
			vals = get(modelOf)
		}
	})
	return r, vals, e
}

// CheckWithModel checks PC ∧ extra; on sat, onSat may query model values
// (inside the same scope) through get.
func (s *Solver) CheckWithModel(extra *Term, onSat func(get func([]*Term) []uint64)) (SatResult, []uint64, string) {
	start := time.Now()
	var r string
	if extra != nil {
		r = s.p.ref(extra)
	}
	s.flushPre()
	s.send("(push 1)\n")
	s.p.journal = []string{}
	s.p.inScope = true
	if extra != nil {
		s.send("(assert " + r + ")\n")
	}
	s.send("(check-sat)\n(echo \"<<done>>\")\n")
	lines, errtxt := s.readUntilDone()
	res := Unknown
	for _, l := range lines {
		switch strings.TrimSpace(l) {
		case "sat":
			res = Sat
		case "unsat":
			res = Unsat
		case "unknown", "timeout":
			res = Unknown
		}
	}
	if errtxt != "" {
		res = Unknown
	}
	if res == Sat && onSat != nil {
		get := func(ts []*Term) []uint64 {
			vals := make([]uint64, len(ts))
			const chunk = 256
			for i := 0; i < len(ts); i += chunk {
				j := i + chunk
				if j > len(ts) {
					j = len(ts)
				}
				var refs []string
				for _, t := range ts[i:j] {
					refs = append(refs, s.p.ref(t))
				}
				s.flushPre()
				s.send("(get-value (" + strings.Join(refs, " ") + "))\n(echo \"<<done>>\")\n")
				ls, e2 := s.readUntilDone()
				if e2 != "" {
					errtxt += e2
					res = Unknown
					return vals
				}
				got := parseValues(strings.Join(ls, "\n"))
				if len(got) != j-i {
					errtxt += fmt.Sprintf("get-value: expected %d values, got %d: %s", j-i, len(got), strings.Join(ls, " "))
					res = Unknown
					return vals
				}
				copy(vals[i:j], got)
			}
			return vals
		}
		onSat(get)
	}
	s.send("(pop 1)\n")
	for _, k := range s.p.journal {
		if strings.HasPrefix(k, "#") {
			id, _ := strconv.Atoi(k[1:])
			delete(s.p.defined, id)
		} else {
			delete(s.p.declared, k)
		}
	}
	s.p.inScope = false
	s.p.journal = nil
	d := time.Since(start)
	s.Stats.Queries++
	s.Stats.Time += d
	if d > s.Stats.MaxQuery {
		s.Stats.MaxQuery = d
	}
	switch res {
	case Sat:
		s.Stats.Sat++
	case Unsat:
		s.Stats.Unsat++
	default:
		s.Stats.Unknown++
	}
	return res, nil, errtxt
}

func (s *Solver) readUntilDone() ([]string, string) {
	var lines []string
	errtxt := ""
	for {
		l, err := s.out.ReadString('\n')
		if err != nil {
			return lines, "solver died: " + err.Error()
		}
		l = strings.TrimRight(l, "\r\n")
		if l == "<<done>>" || l == "\"<<done>>\"" {
			return lines, errtxt
		}
		if strings.Contains(l, "(error") {
			errtxt += l + "\n"
		}
		lines = append(lines, l)
	}
}

// parseValues extracts the value literals, in order, from a get-value reply
// "((t1 #x00) (t2 true) ((select a i) #b01) ...)".
func parseValues(s string) []uint64 {
	var out []uint64
	// Tokenise; a value is the last token before the ')' that closes a pair at depth 2.
	depth := 0
	i := 0
	lastTok := ""
	lastTok2 := "" // for (_ bvN W)
	for i < len(s) {
		ch := s[i]
		switch {
		case ch == '(':
			depth++
			i++
		case ch == ')':
			if depth == 2 {
				out = append(out, parseLit(lastTok, lastTok2))
			}
			depth--
			i++
		case ch == ' ' || ch == '\n' || ch == '\t':
			i++
		default:
			j := i
			for j < len(s) && s[j] != ' ' && s[j] != '(' && s[j] != ')' && s[j] != '\n' {
				j++
			}
			lastTok2 = lastTok
			lastTok = s[i:j]
			i = j
		}
	}
	return out
}

func parseLit(tok, prev string) uint64 {
	switch {
	case tok == "true":
		return 1
	case tok == "false":
		return 0
	case strings.HasPrefix(tok, "#x"):
		v, _ := strconv.ParseUint(tok[2:], 16, 64)
		return v
	case strings.HasPrefix(tok, "#b"):
		v, _ := strconv.ParseUint(tok[2:], 2, 64)
		return v
	case strings.HasPrefix(prev, "bv"):
		v, _ := strconv.ParseUint(prev[2:], 10, 64)
		return v
	}
	return 0
}
