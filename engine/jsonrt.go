package main

// Type-directed model of encoding/json's Marshal followed by Unmarshal into a
// fresh value of the same type (vf.JSONCopy). What survives the round trip is
// decided from the REAL types of the current source tree (field visibility,
// `json:"..."` tags, "-", name conflicts, omitempty, map key kinds, unsupported
// kinds), following the documented field-selection rules of encoding/json; the
// text level (number formatting, string escaping of valid UTF-8, RFC 3339
// times, base64 of []byte, TextMarshaler of netip.Addr) is assumed faithful.

import (
	"go/types"
	"reflect"
	"strings"

	"golang.org/x/tools/go/ssa"
)

type jsonErr struct{ why string }

type jsonField struct {
	idx       int
	name      string
	tagged    bool
	omitEmpty bool
}

func jsonValidTag(s string) bool {
	if s == "" {
		return false
	}
	for _, c := range s {
		switch {
		case strings.ContainsRune("!#$%&()*+-./:;<=>?@[]^_{|}~ ", c):
		case c >= '0' && c <= '9', c >= 'a' && c <= 'z', c >= 'A' && c <= 'Z', c > 127:
		default:
			return false
		}
	}
	return true
}

// jsonFields returns the fields of st that encoding/json encodes and decodes
// (nil entries in the result index = dropped), or ok=false for shapes the model
// does not cover (embedded fields).
func (p *Path) jsonFields(st *types.Struct) []*jsonField {
	tagKey := p.codecTag
	if tagKey == "" {
		tagKey = "json"
	}
	var cand []*jsonField
	for i := 0; i < st.NumFields(); i++ {
		f := st.Field(i)
		if f.Embedded() {
			p.unsupported("vf.JSONCopy: embedded field %s (field promotion is not modelled)", f.Name())
		}
		if !f.Exported() {
			continue
		}
		tag, hasTag := reflect.StructTag(st.Tag(i)).Lookup(tagKey)
		if !hasTag && tagKey != "json" {
			tag, hasTag = reflect.StructTag(st.Tag(i)).Lookup("json") // fxamacker/cbor falls back to the json tag
		}
		if tag == "-" {
			continue
		}
		name, opts, _ := strings.Cut(tag, ",")
		jf := &jsonField{idx: i, name: f.Name()}
		if hasTag && jsonValidTag(name) {
			jf.name, jf.tagged = name, true
		}
		for _, o := range strings.Split(opts, ",") {
			if o == "omitempty" {
				jf.omitEmpty = true
			}
		}
		cand = append(cand, jf)
	}
	// dominant field per name (all candidates are at depth 0): a single one wins;
	// among several, exactly one tagged wins; otherwise all are dropped silently.
	byName := map[string][]*jsonField{}
	for _, c := range cand {
		byName[c.name] = append(byName[c.name], c)
	}
	out := make([]*jsonField, st.NumFields())
	for _, fs := range byName {
		switch {
		case len(fs) == 1:
			out[fs[0].idx] = fs[0]
		default:
			var tagged []*jsonField
			for _, f := range fs {
				if f.tagged {
					tagged = append(tagged, f)
				}
			}
			if len(tagged) == 1 {
				out[tagged[0].idx] = tagged[0]
			}
		}
	}
	// decoding matches names exactly first and case-insensitively otherwise: a key
	// of a dropped or absent field can still land in a kept field whose name folds
	// to the same string. With all emitted keys being exact names of kept fields
	// this cannot redirect anything.
	return out
}

func hasMarshalMethod(t types.Type) bool {
	for _, tt := range []types.Type{t, types.NewPointer(t)} {
		ms := types.NewMethodSet(tt)
		for i := 0; i < ms.Len(); i++ {
			switch ms.At(i).Obj().Name() {
			case "MarshalJSON", "MarshalText":
				return true
			}
		}
	}
	return false
}

func (p *Path) jsonKeyOK(t types.Type) bool {
	if b, ok := t.Underlying().(*types.Basic); ok {
		if b.Info()&types.IsString != 0 || b.Info()&types.IsInteger != 0 {
			return true
		}
	}
	if _, isPtr := t.(*types.Pointer); !isPtr {
		// encoding.TextMarshaler with a value receiver (and TextUnmarshaler on the pointer)
		ms := types.NewMethodSet(t)
		has := false
		for i := 0; i < ms.Len(); i++ {
			if ms.At(i).Obj().Name() == "MarshalText" {
				has = true
			}
		}
		if has {
			pms := types.NewMethodSet(types.NewPointer(t))
			for i := 0; i < pms.Len(); i++ {
				if pms.At(i).Obj().Name() == "UnmarshalText" {
					return true
				}
			}
		}
	}
	return false
}

func (p *Path) jsonIsEmpty(v Value) (empty bool, known bool) {
	switch x := v.(type) {
	case *Term:
		if x.IsConst() {
			return x.Val == 0, true
		}
		return false, false
	case *SliceV:
		if x.Obj == nil {
			return true, true
		}
		if x.Len.IsConst() {
			return x.Len.Val == 0, true
		}
		return false, false
	case *PtrV:
		return x.IsNil(), true
	case *MapV:
		if x.M == nil {
			return true, true
		}
		n := p.mapLen(x)
		if n.IsConst() {
			return n.Val == 0, true
		}
		// whether the map is empty decides whether the key appears in the file at all (and so
		// whether a decoder leaves a nil map behind): both cases are explored
		return p.branch(p.tc.Eq(n, p.tc.Const(64, 0))), true
	case *IfaceV:
		return x.Typ == nil, true
	}
	return false, true // structs, arrays of length > 0: never empty
}

// jsonVal returns what Unmarshal(Marshal(v)) yields for a value of static type t.
func (p *Path) jsonVal(t types.Type, v Value, depth int) Value {
	if depth > 40 {
		p.unsupported("vf.JSONCopy: value too deep")
	}
	if _, isP := v.(Poison); isP {
		return v
	}
	if _, isPtr := t.Underlying().(*types.Pointer); !isPtr && hasMarshalMethod(t) {
		return v // leaf: the type's own (un)marshaller, assumed faithful
	}
	switch u := t.Underlying().(type) {
	case *types.Basic:
		if u.Info()&types.IsComplex != 0 {
			panic(jsonErr{"unsupported type " + t.String()})
		}
		return v
	case *types.Pointer:
		pv := v.(*PtrV)
		if pv.IsNil() {
			return &PtrV{}
		}
		if pv.Idx != nil || pv.Win {
			p.unsupported("vf.JSONCopy: pointer into a byte store")
		}
		inner := p.jsonVal(u.Elem(), p.loadObj(pv.Obj), depth+1)
		no := p.newObject(u.Elem(), "json")
		p.storeObj(no, inner)
		return &PtrV{Obj: no}
	case *types.Struct:
		sv := v.(*StructV)
		fs := p.jsonFields(u)
		out := &StructV{Typ: sv.Typ, Fields: make([]Value, len(sv.Fields))}
		for i := range sv.Fields {
			ft := u.Field(i).Type()
			jf := fs[i]
			if jf == nil {
				out.Fields[i] = p.zero(ft)
				continue
			}
			if jf.omitEmpty {
				if e, known := p.jsonIsEmpty(sv.Fields[i]); known && e {
					out.Fields[i] = p.zero(ft)
					continue
				}
			}
			out.Fields[i] = p.jsonVal(ft, sv.Fields[i], depth+1)
		}
		return out
	case *types.Array:
		av := v.(*ArrayV)
		out := &ArrayV{Typ: av.Typ, Elems: make([]Value, len(av.Elems))}
		for i, e := range av.Elems {
			out.Elems[i] = p.jsonVal(u.Elem(), e, depth+1)
		}
		return out
	case *types.Slice:
		s := v.(*SliceV)
		if s.Obj == nil {
			return &SliceV{IsString: s.IsString}
		}
		if w, ok := byteStoreElem(u.Elem()); ok {
			no := p.newByteStore(u.Elem(), w, s.Len, false, "json")
			p.copyElems(no, p.tc.Const(64, 0), s.Obj, s.Off, s.Len)
			return &SliceV{Obj: no, Off: p.tc.Const(64, 0), Len: s.Len, Cap: s.Len}
		}
		if !s.Len.IsConst() || !s.Off.IsConst() {
			p.unsupported("vf.JSONCopy: slice of %s with symbolic length", u.Elem())
		}
		n, off := int(s.Len.Val), int(s.Off.Val)
		no := p.newElemStore(u.Elem(), n, "json")
		for i := 0; i < n; i++ {
			p.storeObj(no.Elems[i], p.jsonVal(u.Elem(), p.loadObj(s.Obj.Elems[off+i]), depth+1))
		}
		c := p.tc.Const(64, uint64(n))
		return &SliceV{Obj: no, Off: p.tc.Const(64, 0), Len: c, Cap: c}
	case *types.Map:
		mv := v.(*MapV)
		if !p.jsonKeyOK(u.Key()) {
			panic(jsonErr{"unsupported map key type " + u.Key().String()})
		}
		if mv.M == nil {
			return &MapV{}
		}
		p.objN++
		nm := &MapObj{ID: p.objN, Typ: mv.M.Typ}
		for _, e := range mv.M.Entries {
			nm.Entries = append(nm.Entries, &MapEntry{Key: e.Key, Val: p.jsonVal(u.Elem(), e.Val, depth+1), Present: e.Present})
		}
		return &MapV{M: nm}
	case *types.Interface:
		iv := v.(*IfaceV)
		if iv.Typ == nil {
			return iv
		}
		p.unsupported("vf.JSONCopy: non-nil interface value (%s)", iv.Typ)
	case *types.Chan, *types.Signature:
		panic(jsonErr{"unsupported type " + t.String()})
	}
	p.unsupported("vf.JSONCopy: type %s", t)
	return nil
}

func init() {
	// vf.JSONCopy(dst, src any) bool: *dst = Unmarshal(Marshal(*src)); false = Marshal reports an error.
	if intrinsics == nil {
		panic("init order")
	}
	intrinsics[vfPkg+".JSONCopy"] = func(p *Path, fn *ssa.Function, args []Value) (res Value) {
		di, ok1 := args[0].(*IfaceV)
		si, ok2 := args[1].(*IfaceV)
		if !ok1 || !ok2 || di.Typ == nil || si.Typ == nil {
			p.unsupported("vf.JSONCopy needs two non-nil pointers")
		}
		dp, ok1 := di.Val.(*PtrV)
		sp, ok2 := si.Val.(*PtrV)
		dt, ok3 := di.Typ.Underlying().(*types.Pointer)
		if !ok1 || !ok2 || !ok3 || dp.IsNil() || sp.IsNil() || !types.Identical(di.Typ, si.Typ) {
			p.unsupported("vf.JSONCopy needs two non-nil pointers of the same type")
		}
		if p.guard != nil {
			panic(mergeAbort{"vf.JSONCopy in merge region"})
		}
		defer func() {
			if r := recover(); r != nil {
				if je, ok := r.(jsonErr); ok {
					p.note("json: " + je.why)
					res = p.tc.False
					return
				}
				panic(r)
			}
		}()
		out := p.jsonVal(dt.Elem(), p.loadObj(sp.Obj), 0)
		p.storeObj(dp.Obj, out)
		return p.tc.True
	}
}

// ---- vf.FillAny / vf.DeepEqual: type-directed "every field" helpers --------

func (p *Path) freshInputBytes(n int, isString bool) *SliceV {
	tc := p.tc
	nt := tc.Const(64, uint64(n))
	o := p.newByteStore(types.Typ[types.Uint8], 8, nt, true, "in")
	p.inputs = append(p.inputs, &InputRec{Kind: "bytes", obj: o, lenT: nt, Name: o.Base.Name, Env: p.inModel()})
	p.pinInput(len(p.inputs) - 1)
	return &SliceV{Obj: o, Off: tc.Const(64, 0), Len: nt, Cap: nt, IsString: isString}
}

// fillVal returns a value of type t in which every field that fillVal knows how
// to build is non-empty and symbolic; old is kept for what it does not build
// (maps, interfaces, types with their own marshaller other than time.Time).
func (p *Path) fillVal(t types.Type, old Value, depth int) Value {
	tc := p.tc
	if depth > 12 {
		return old
	}
	if named, ok := t.(*types.Named); ok && named.Obj().Pkg() != nil && named.Obj().Pkg().Path() == "time" && named.Obj().Name() == "Time" {
		sec := p.fresh("in_int", BV(64))
		p.addInput("int", sec)
		p.assume(tc.And(tc.Slt(tc.Const(64, 0), sec), tc.Slt(sec, tc.Const(64, 1<<40))))
		return &StructV{Typ: t, Fields: []Value{tc.Const(64, 0), tc.BvAdd(sec, tc.Const(64, 62135596800)), &PtrV{}}}
	}
	if _, isPtr := t.Underlying().(*types.Pointer); !isPtr && hasMarshalMethod(t) {
		return old
	}
	switch u := t.Underlying().(type) {
	case *types.Basic:
		switch {
		case u.Info()&types.IsBoolean != 0:
			b := p.fresh("in_bool", BoolSort)
			p.addInput("bool", b)
			return b
		case u.Info()&types.IsInteger != 0:
			w := typeWidth(t)
			v := p.fresh("in_u64", BV(64))
			p.addInput("u64", v)
			if w == 64 {
				return v
			}
			return tc.Extract(v, w-1, 0)
		case u.Info()&types.IsString != 0:
			return p.freshInputBytes(2, true)
		}
		return old
	case *types.Pointer:
		no := p.newObject(u.Elem(), "fill")
		p.storeObj(no, p.fillVal(u.Elem(), p.loadObj(no), depth+1))
		return &PtrV{Obj: no}
	case *types.Struct:
		sv := old.(*StructV)
		out := &StructV{Typ: sv.Typ, Fields: make([]Value, len(sv.Fields))}
		for i := range sv.Fields {
			out.Fields[i] = p.fillVal(u.Field(i).Type(), sv.Fields[i], depth+1)
		}
		return out
	case *types.Slice:
		if _, ok := byteStoreElem(u.Elem()); ok {
			if typeWidth(u.Elem()) == 8 {
				return p.freshInputBytes(3, false)
			}
			return old
		}
		no := p.newElemStore(u.Elem(), 1, "fill")
		p.storeObj(no.Elems[0], p.fillVal(u.Elem(), p.loadObj(no.Elems[0]), depth+1))
		c := tc.Const(64, 1)
		return &SliceV{Obj: no, Off: tc.Const(64, 0), Len: c, Cap: c}
	}
	return old
}

// deepEq: structural equality as a JSON consumer sees it (nil and empty slices
// alike; pointers by pointee). Maps and non-nil interfaces are not compared
// (the harness looks entries up itself).
func (p *Path) deepEq(t types.Type, a, b Value, depth int) *Term {
	tc := p.tc
	if depth > 40 {
		p.unsupported("vf.DeepEqual: value too deep")
	}
	if _, isPtr := t.Underlying().(*types.Pointer); !isPtr && hasMarshalMethod(t) {
		return p.valueEq(a, b)
	}
	switch u := t.Underlying().(type) {
	case *types.Basic:
		return p.valueEq(a, b)
	case *types.Pointer:
		pa, pb := a.(*PtrV), b.(*PtrV)
		if pa.IsNil() || pb.IsNil() {
			return tc.Bool(pa.IsNil() && pb.IsNil())
		}
		return p.deepEq(u.Elem(), p.loadObj(pa.Obj), p.loadObj(pb.Obj), depth+1)
	case *types.Struct:
		sa, sb := a.(*StructV), b.(*StructV)
		res := tc.True
		for i := range sa.Fields {
			res = tc.And(res, p.deepEq(u.Field(i).Type(), sa.Fields[i], sb.Fields[i], depth+1))
		}
		return res
	case *types.Array:
		aa, ab := a.(*ArrayV), b.(*ArrayV)
		res := tc.True
		for i := range aa.Elems {
			res = tc.And(res, p.deepEq(u.Elem(), aa.Elems[i], ab.Elems[i], depth+1))
		}
		return res
	case *types.Slice:
		sa, sb := a.(*SliceV), b.(*SliceV)
		la, lb := tc.Const(64, 0), tc.Const(64, 0)
		if sa.Obj != nil {
			la = sa.Len
		}
		if sb.Obj != nil {
			lb = sb.Len
		}
		if la.IsConst() && lb.IsConst() && la.Val != lb.Val {
			return tc.False
		}
		if !la.IsConst() && !lb.IsConst() {
			p.unsupported("vf.DeepEqual: two slices of symbolic length")
		}
		n := la
		if !n.IsConst() {
			n = lb
		}
		res := tc.Eq(la, lb)
		if n.Val == 0 {
			return res
		}
		if _, ok := byteStoreElem(u.Elem()); ok {
			if n.Val > 4096 {
				p.unsupported("vf.DeepEqual over %d elements", n.Val)
			}
			for i := uint64(0); i < n.Val; i++ {
				k := tc.Const(64, i)
				res = tc.And(res, tc.Eq(p.readElem(sa.Obj, tc.BvAdd(sa.Off, k)), p.readElem(sb.Obj, tc.BvAdd(sb.Off, k))))
			}
			return res
		}
		if !sa.Off.IsConst() || !sb.Off.IsConst() {
			p.unsupported("vf.DeepEqual: slice with symbolic offset")
		}
		for i := 0; i < int(n.Val); i++ {
			res = tc.And(res, p.deepEq(u.Elem(), p.loadObj(sa.Obj.Elems[int(sa.Off.Val)+i]), p.loadObj(sb.Obj.Elems[int(sb.Off.Val)+i]), depth+1))
		}
		return res
	case *types.Map:
		return tc.True
	case *types.Interface:
		return tc.True
	}
	p.unsupported("vf.DeepEqual: type %s", t)
	return nil
}

func ifacePtr(p *Path, v Value, what string) (*PtrV, types.Type) {
	iv, ok := v.(*IfaceV)
	if !ok || iv.Typ == nil {
		p.unsupported("%s needs a non-nil pointer", what)
	}
	pv, ok1 := iv.Val.(*PtrV)
	pt, ok2 := iv.Typ.Underlying().(*types.Pointer)
	if !ok1 || !ok2 || pv.IsNil() {
		p.unsupported("%s needs a non-nil pointer", what)
	}
	return pv, pt.Elem()
}

func init() {
	// vf.CBORCopy(dst, src any) bool: the same model with `cbor:"..."` struct tags (fxamacker/cbor applies
	// encoding/json's field rules to its own tag, falling back to the json tag): what a message
	// struct looks like after Marshal + Unmarshal. toarray / keyasint options are not modelled.
	intrinsics[vfPkg+".CBORCopy"] = func(p *Path, fn *ssa.Function, args []Value) Value {
		p.codecTag = "cbor"
		defer func() { p.codecTag = "" }()
		return intrinsics[vfPkg+".JSONCopy"](p, fn, args)
	}
	intrinsics[vfPkg+".FillAny"] = func(p *Path, fn *ssa.Function, args []Value) Value {
		if p.guard != nil {
			panic(mergeAbort{"vf.FillAny in merge region"})
		}
		pv, et := ifacePtr(p, args[0], "vf.FillAny")
		p.storeObj(pv.Obj, p.fillVal(et, p.loadObj(pv.Obj), 0))
		return nil
	}
	// vf.GuardMap(m any, name string): from now on every access to map m (lookup, update, delete,
	// len, range, maps.Clone) is recorded as event "map:<name>" for vf.HeldDuring.
	intrinsics[vfPkg+".GuardMap"] = func(p *Path, fn *ssa.Function, args []Value) Value {
		iv, ok := args[0].(*IfaceV)
		if !ok || iv.Typ == nil {
			p.unsupported("vf.GuardMap needs a map")
		}
		mv, ok := iv.Val.(*MapV)
		if !ok || mv.M == nil {
			p.unsupported("vf.GuardMap needs a non-nil map")
		}
		name, _ := p.concreteString(args[1].(*SliceV))
		if p.guardedMaps == nil {
			p.guardedMaps = map[*MapObj]string{}
		}
		p.guardedMaps[mv.M] = name
		return nil
	}
	intrinsics[vfPkg+".DeepEqual"] = func(p *Path, fn *ssa.Function, args []Value) Value {
		pa, ta := ifacePtr(p, args[0], "vf.DeepEqual")
		pb, tb := ifacePtr(p, args[1], "vf.DeepEqual")
		if !types.Identical(ta, tb) {
			return p.tc.False
		}
		return p.deepEq(ta, p.loadObj(pa.Obj), p.loadObj(pb.Obj), 0)
	}
}
