package main

// SMT term layer: hash-consed terms over Bool, (_ BitVec n) n<=64 and
// (Array (_ BitVec 64) (_ BitVec w)). All operators constant-fold so that
// concrete execution costs no solver work.

import (
	"fmt"
	"math/bits"
	"strconv"
	"strings"
)

type Op uint8

const (
	OpConst Op = iota
	OpVar
	OpNot
	OpAnd
	OpOr
	OpEq
	OpIte
	OpBvNot
	OpBvNeg
	OpBvAnd
	OpBvOr
	OpBvXor
	OpBvAdd
	OpBvSub
	OpBvMul
	OpBvUDiv
	OpBvURem
	OpBvSDiv
	OpBvSRem
	OpBvShl
	OpBvLShr
	OpBvAShr
	OpBvUlt
	OpBvUle
	OpBvSlt
	OpBvSle
	OpExtract // val = hi<<8|lo
	OpConcat
	OpZext // to sort width
	OpSext
	OpSelect
	OpStore
	OpConstArr // args[0] = default elem
	OpUF       // name = function name; args
)

var opNames = map[Op]string{
	OpNot: "not", OpAnd: "and", OpOr: "or", OpEq: "=", OpIte: "ite",
	OpBvNot: "bvnot", OpBvNeg: "bvneg", OpBvAnd: "bvand", OpBvOr: "bvor", OpBvXor: "bvxor",
	OpBvAdd: "bvadd", OpBvSub: "bvsub", OpBvMul: "bvmul", OpBvUDiv: "bvudiv", OpBvURem: "bvurem",
	OpBvSDiv: "bvsdiv", OpBvSRem: "bvsrem", OpBvShl: "bvshl", OpBvLShr: "bvlshr", OpBvAShr: "bvashr",
	OpBvUlt: "bvult", OpBvUle: "bvule", OpBvSlt: "bvslt", OpBvSle: "bvsle",
	OpConcat: "concat", OpSelect: "select", OpStore: "store",
}

type SortKind uint8

const (
	SBool SortKind = iota
	SBV
	SArr
)

type Sort struct {
	K SortKind
	W int // BV width, or element width for arrays (index is always 64)
}

func (s Sort) String() string {
	switch s.K {
	case SBool:
		return "Bool"
	case SBV:
		return fmt.Sprintf("(_ BitVec %d)", s.W)
	default:
		return fmt.Sprintf("(Array (_ BitVec 64) (_ BitVec %d))", s.W)
	}
}

var BoolSort = Sort{SBool, 0}

func BV(w int) Sort  { return Sort{SBV, w} }
func Arr(w int) Sort { return Sort{SArr, w} }

type Term struct {
	Op   Op
	S    Sort
	Args []*Term
	Val  uint64
	Name string
	ID   int
	size int // approx printed size
	H    [2]uint64 // structural hash (independent of creation order)
}

type TermCtx struct {
	tab    map[string]*Term
	nextID int
	True   *Term
	False  *Term
	// UF declarations: name -> signature
	ufs map[string]string
}

func NewTermCtx() *TermCtx {
	c := &TermCtx{tab: map[string]*Term{}, ufs: map[string]string{}}
	c.True = c.mk(OpConst, BoolSort, nil, 1, "")
	c.False = c.mk(OpConst, BoolSort, nil, 0, "")
	return c
}

func (c *TermCtx) mk(op Op, s Sort, args []*Term, val uint64, name string) *Term {
	var sb strings.Builder
	sb.WriteByte(byte(op))
	sb.WriteByte(byte(s.K))
	sb.WriteString(strconv.Itoa(s.W))
	sb.WriteByte(':')
	sb.WriteString(strconv.FormatUint(val, 16))
	sb.WriteByte(':')
	sb.WriteString(name)
	for _, a := range args {
		sb.WriteByte(',')
		sb.WriteString(strconv.Itoa(a.ID))
	}
	k := sb.String()
	if t, ok := c.tab[k]; ok {
		return t
	}
	c.nextID++
	sz := 8 + len(name)
	for _, a := range args {
		sz += a.size
		if sz > 1<<30 {
			sz = 1 << 30
		}
	}
	t := &Term{Op: op, S: s, Args: args, Val: val, Name: name, ID: c.nextID, size: sz}
	h1 := uint64(14695981039346656037) ^ uint64(op)<<8 ^ uint64(s.K)<<16 ^ uint64(s.W)<<24
	h2 := uint64(0x9E3779B97F4A7C15) + uint64(op)*31 + uint64(s.K)*131 + uint64(s.W)*1031
	mix := func(v uint64) {
		h1 = (h1 ^ v) * 1099511628211
		h1 ^= h1 >> 29
		h2 = (h2 + v*0xff51afd7ed558ccd) * 0xc4ceb9fe1a85ec53
		h2 ^= h2 >> 33
	}
	mix(val)
	for i := 0; i < len(name); i++ {
		mix(uint64(name[i]) + 0x100)
	}
	for _, a := range args {
		mix(a.H[0])
		mix(a.H[1] ^ 0x5555)
	}
	t.H = [2]uint64{h1, h2}
	c.tab[k] = t
	return t
}

func mask(w int) uint64 {
	if w >= 64 {
		return ^uint64(0)
	}
	return (uint64(1) << uint(w)) - 1
}

func (t *Term) IsConst() bool { return t.Op == OpConst }
func (t *Term) IsTrue() bool  { return t.Op == OpConst && t.S.K == SBool && t.Val == 1 }
func (t *Term) IsFalse() bool { return t.Op == OpConst && t.S.K == SBool && t.Val == 0 }

// SignedVal returns the constant as signed int64 (sign-extended from width).
func (t *Term) SignedVal() int64 {
	w := t.S.W
	v := t.Val
	if w < 64 && v&(uint64(1)<<uint(w-1)) != 0 {
		v |= ^mask(w)
	}
	return int64(v)
}

func (c *TermCtx) Const(w int, v uint64) *Term {
	return c.mk(OpConst, BV(w), nil, v&mask(w), "")
}
func (c *TermCtx) Bool(b bool) *Term {
	if b {
		return c.True
	}
	return c.False
}
func (c *TermCtx) Var(name string, s Sort) *Term {
	return c.mk(OpVar, s, nil, 0, name)
}

func (c *TermCtx) Not(a *Term) *Term {
	if a.IsConst() {
		return c.Bool(a.Val == 0)
	}
	if a.Op == OpNot {
		return a.Args[0]
	}
	return c.mk(OpNot, BoolSort, []*Term{a}, 0, "")
}

func (c *TermCtx) And(a, b *Term) *Term {
	if a.IsConst() {
		if a.Val == 0 {
			return c.False
		}
		return b
	}
	if b.IsConst() {
		if b.Val == 0 {
			return c.False
		}
		return a
	}
	if a == b {
		return a
	}
	return c.mk(OpAnd, BoolSort, []*Term{a, b}, 0, "")
}

func (c *TermCtx) Or(a, b *Term) *Term {
	if a.IsConst() {
		if a.Val == 1 {
			return c.True
		}
		return b
	}
	if b.IsConst() {
		if b.Val == 1 {
			return c.True
		}
		return a
	}
	if a == b {
		return a
	}
	return c.mk(OpOr, BoolSort, []*Term{a, b}, 0, "")
}

func (c *TermCtx) Implies(a, b *Term) *Term { return c.Or(c.Not(a), b) }

func (c *TermCtx) Eq(a, b *Term) *Term {
	if a.S != b.S {
		panic(fmt.Sprintf("Eq sort mismatch %v %v", a.S, b.S))
	}
	if a == b {
		return c.True
	}
	if a.IsConst() && b.IsConst() {
		return c.Bool(a.Val == b.Val)
	}
	if a.S.K == SBool {
		if a.IsConst() {
			if a.Val == 1 {
				return b
			}
			return c.Not(b)
		}
		if b.IsConst() {
			if b.Val == 1 {
				return a
			}
			return c.Not(a)
		}
	}
	// ite(c, k1, k2) == k  with constants
	if b.IsConst() && a.Op == OpIte && a.Args[1].IsConst() && a.Args[2].IsConst() {
		t1 := a.Args[1].Val == b.Val
		t2 := a.Args[2].Val == b.Val
		switch {
		case t1 && t2:
			return c.True
		case t1:
			return a.Args[0]
		case t2:
			return c.Not(a.Args[0])
		default:
			return c.False
		}
	}
	if a.IsConst() && !b.IsConst() {
		a, b = b, a
	}
	// (x + k1) == (x + k2), x == (x + k): decided by the constants (sound under wrap-around)
	if a.S.K == SBV {
		ab, ak := splitAddConst(a)
		bb, bk := splitAddConst(b)
		if ab != nil && ab == bb {
			return c.Bool(ak == bk)
		}
		if ab != nil && bb != nil && ab != a && bb != b {
			// both have constant parts: compare bases with the difference folded on one side
			return c.Eq(ab, c.bin(OpBvAdd, bb, c.Const(a.S.W, bk-ak)))
		}
		if b.IsConst() && ab != a && ab != nil {
			return c.Eq(ab, c.Const(a.S.W, b.Val-ak))
		}
	}
	// zext(x) == const
	if b.IsConst() && a.Op == OpZext {
		iw := a.Args[0].S.W
		if b.Val&^mask(iw) != 0 {
			return c.False
		}
		return c.Eq(a.Args[0], c.Const(iw, b.Val))
	}
	if a.ID > b.ID && !b.IsConst() {
		a, b = b, a
	}
	return c.mk(OpEq, BoolSort, []*Term{a, b}, 0, "")
}

func (c *TermCtx) Ite(cond, a, b *Term) *Term {
	if a.S != b.S {
		panic(fmt.Sprintf("Ite sort mismatch %v %v", a.S, b.S))
	}
	if cond.IsConst() {
		if cond.Val == 1 {
			return a
		}
		return b
	}
	if a == b {
		return a
	}
	if a.S.K == SBool {
		if a.IsTrue() && b.IsFalse() {
			return cond
		}
		if a.IsFalse() && b.IsTrue() {
			return c.Not(cond)
		}
		if a.IsTrue() {
			return c.Or(cond, b)
		}
		if a.IsFalse() {
			return c.And(c.Not(cond), b)
		}
		if b.IsTrue() {
			return c.Or(c.Not(cond), a)
		}
		if b.IsFalse() {
			return c.And(cond, a)
		}
	}
	return c.mk(OpIte, a.S, []*Term{cond, a, b}, 0, "")
}

func (c *TermCtx) bin(op Op, a, b *Term) *Term {
	if a.S != b.S {
		panic(fmt.Sprintf("bv binop %v sort mismatch %v %v", opNames[op], a.S, b.S))
	}
	w := a.S.W
	if a.IsConst() && b.IsConst() {
		x, y := a.Val, b.Val
		var r uint64
		switch op {
		case OpBvAnd:
			r = x & y
		case OpBvOr:
			r = x | y
		case OpBvXor:
			r = x ^ y
		case OpBvAdd:
			r = x + y
		case OpBvSub:
			r = x - y
		case OpBvMul:
			r = x * y
		case OpBvUDiv:
			if y == 0 {
				r = mask(w)
			} else {
				r = x / y
			}
		case OpBvURem:
			if y == 0 {
				r = x
			} else {
				r = x % y
			}
		case OpBvSDiv:
			sx, sy := a.SignedVal(), b.SignedVal()
			if sy == 0 {
				if sx < 0 {
					r = 1
				} else {
					r = mask(w)
				}
			} else if sy == -1 {
				r = uint64(-sx)
			} else {
				r = uint64(sx / sy)
			}
		case OpBvSRem:
			sx, sy := a.SignedVal(), b.SignedVal()
			if sy == 0 {
				r = x
			} else if sy == -1 {
				r = 0
			} else {
				r = uint64(sx % sy)
			}
		case OpBvShl:
			if y >= uint64(w) {
				r = 0
			} else {
				r = x << y
			}
		case OpBvLShr:
			if y >= uint64(w) {
				r = 0
			} else {
				r = x >> y
			}
		case OpBvAShr:
			sx := a.SignedVal()
			if y >= uint64(w) {
				if sx < 0 {
					r = mask(w)
				} else {
					r = 0
				}
			} else {
				r = uint64(sx >> y)
			}
		}
		return c.Const(w, r)
	}
	// identities
	switch op {
	case OpBvAdd, OpBvOr, OpBvXor:
		if a.IsConst() && a.Val == 0 {
			return b
		}
		if b.IsConst() && b.Val == 0 {
			return a
		}
		if op == OpBvAdd && a.IsConst() {
			a, b = b, a
		}
		// (x + k1) + k2
		if op == OpBvAdd && b.IsConst() && a.Op == OpBvAdd && a.Args[1].IsConst() {
			return c.bin(OpBvAdd, a.Args[0], c.Const(w, a.Args[1].Val+b.Val))
		}
	case OpBvSub:
		if b.IsConst() && b.Val == 0 {
			return a
		}
		if a == b {
			return c.Const(w, 0)
		}
		if b.IsConst() {
			return c.bin(OpBvAdd, a, c.Const(w, -b.Val))
		}
		// (x + k) - x = k
		if a.Op == OpBvAdd && a.Args[0] == b {
			return a.Args[1]
		}
	case OpBvAnd:
		if a.IsConst() && a.Val == 0 || b.IsConst() && b.Val == 0 {
			return c.Const(w, 0)
		}
		if a.IsConst() && a.Val == mask(w) {
			return b
		}
		if b.IsConst() && b.Val == mask(w) {
			return a
		}
		if a == b {
			return a
		}
	case OpBvMul:
		if a.IsConst() && a.Val == 0 || b.IsConst() && b.Val == 0 {
			return c.Const(w, 0)
		}
		if a.IsConst() && a.Val == 1 {
			return b
		}
		if b.IsConst() && b.Val == 1 {
			return a
		}
	case OpBvShl, OpBvLShr, OpBvAShr:
		if b.IsConst() && b.Val == 0 {
			return a
		}
		if b.IsConst() && b.Val >= uint64(w) && op != OpBvAShr {
			return c.Const(w, 0)
		}
	}
	return c.mk(op, a.S, []*Term{a, b}, 0, "")
}

func (c *TermCtx) BvAnd(a, b *Term) *Term  { return c.bin(OpBvAnd, a, b) }
func (c *TermCtx) BvOr(a, b *Term) *Term   { return c.bin(OpBvOr, a, b) }
func (c *TermCtx) BvXor(a, b *Term) *Term  { return c.bin(OpBvXor, a, b) }
func (c *TermCtx) BvAdd(a, b *Term) *Term  { return c.bin(OpBvAdd, a, b) }
func (c *TermCtx) BvSub(a, b *Term) *Term  { return c.bin(OpBvSub, a, b) }
func (c *TermCtx) BvMul(a, b *Term) *Term  { return c.bin(OpBvMul, a, b) }
func (c *TermCtx) BvUDiv(a, b *Term) *Term { return c.bin(OpBvUDiv, a, b) }
func (c *TermCtx) BvURem(a, b *Term) *Term { return c.bin(OpBvURem, a, b) }
func (c *TermCtx) BvSDiv(a, b *Term) *Term { return c.bin(OpBvSDiv, a, b) }
func (c *TermCtx) BvSRem(a, b *Term) *Term { return c.bin(OpBvSRem, a, b) }
func (c *TermCtx) BvShl(a, b *Term) *Term  { return c.bin(OpBvShl, a, b) }
func (c *TermCtx) BvLShr(a, b *Term) *Term { return c.bin(OpBvLShr, a, b) }
func (c *TermCtx) BvAShr(a, b *Term) *Term { return c.bin(OpBvAShr, a, b) }

func (c *TermCtx) BvNot(a *Term) *Term {
	if a.IsConst() {
		return c.Const(a.S.W, ^a.Val)
	}
	return c.mk(OpBvNot, a.S, []*Term{a}, 0, "")
}
func (c *TermCtx) BvNeg(a *Term) *Term {
	if a.IsConst() {
		return c.Const(a.S.W, -a.Val)
	}
	return c.mk(OpBvNeg, a.S, []*Term{a}, 0, "")
}

func (c *TermCtx) cmp(op Op, a, b *Term) *Term {
	if a.S != b.S {
		panic(fmt.Sprintf("bv cmp sort mismatch %v %v", a.S, b.S))
	}
	if a.IsConst() && b.IsConst() {
		switch op {
		case OpBvUlt:
			return c.Bool(a.Val < b.Val)
		case OpBvUle:
			return c.Bool(a.Val <= b.Val)
		case OpBvSlt:
			return c.Bool(a.SignedVal() < b.SignedVal())
		case OpBvSle:
			return c.Bool(a.SignedVal() <= b.SignedVal())
		}
	}
	if a == b {
		return c.Bool(op == OpBvUle || op == OpBvSle)
	}
	w := a.S.W
	switch op {
	case OpBvUlt:
		if b.IsConst() && b.Val == 0 {
			return c.False
		}
		if a.IsConst() && a.Val == mask(w) {
			return c.False
		}
	case OpBvUle:
		if a.IsConst() && a.Val == 0 {
			return c.True
		}
		if b.IsConst() && b.Val == mask(w) {
			return c.True
		}
	}
	// zext(x) vs const comparisons where the const exceeds the inner range
	if a.Op == OpZext && b.IsConst() && a.Args[0].S.W < 63 {
		iw := a.Args[0].S.W
		bv := b.Val
		neg := (op == OpBvSlt || op == OpBvSle) && b.SignedVal() < 0
		if neg {
			return c.False
		}
		if bv > mask(iw) {
			return c.True
		}
		var iop Op
		switch op {
		case OpBvUlt, OpBvSlt:
			iop = OpBvUlt
		default:
			iop = OpBvUle
		}
		return c.cmp(iop, a.Args[0], c.Const(iw, bv))
	}
	if b.Op == OpZext && a.IsConst() && b.Args[0].S.W < 63 {
		iw := b.Args[0].S.W
		av := a.Val
		neg := (op == OpBvSlt || op == OpBvSle) && a.SignedVal() < 0
		if neg {
			return c.True
		}
		if av > mask(iw) {
			return c.False
		}
		var iop Op
		switch op {
		case OpBvUlt, OpBvSlt:
			iop = OpBvUlt
		default:
			iop = OpBvUle
		}
		return c.cmp(iop, c.Const(iw, av), b.Args[0])
	}
	return c.mk(op, BoolSort, []*Term{a, b}, 0, "")
}

func (c *TermCtx) Ult(a, b *Term) *Term { return c.cmp(OpBvUlt, a, b) }
func (c *TermCtx) Ule(a, b *Term) *Term { return c.cmp(OpBvUle, a, b) }
func (c *TermCtx) Slt(a, b *Term) *Term { return c.cmp(OpBvSlt, a, b) }
func (c *TermCtx) Sle(a, b *Term) *Term { return c.cmp(OpBvSle, a, b) }

func (c *TermCtx) Extract(a *Term, hi, lo int) *Term {
	w := hi - lo + 1
	if lo == 0 && w == a.S.W {
		return a
	}
	if a.IsConst() {
		return c.Const(w, a.Val>>uint(lo))
	}
	if a.Op == OpZext || a.Op == OpSext {
		iw := a.Args[0].S.W
		if hi < iw {
			return c.Extract(a.Args[0], hi, lo)
		}
		if a.Op == OpZext && lo >= iw {
			return c.Const(w, 0)
		}
	}
	if a.Op == OpConcat {
		lw := a.Args[1].S.W
		if hi < lw {
			return c.Extract(a.Args[1], hi, lo)
		}
		if lo >= lw {
			return c.Extract(a.Args[0], hi-lw, lo-lw)
		}
	}
	if a.Op == OpExtract {
		ilo := int(a.Val & 0xff)
		return c.Extract(a.Args[0], hi+ilo, lo+ilo)
	}
	return c.mk(OpExtract, BV(w), []*Term{a}, uint64(hi)<<8|uint64(lo), "")
}

func (c *TermCtx) Concat(a, b *Term) *Term {
	w := a.S.W + b.S.W
	if w > 64 {
		panic("concat > 64 bits")
	}
	if a.IsConst() && b.IsConst() {
		return c.Const(w, a.Val<<uint(b.S.W)|b.Val)
	}
	if a.IsConst() && a.Val == 0 {
		return c.Zext(b, w)
	}
	// concat(extract(x,h,m+1), extract(x,m,l)) = extract(x,h,l)
	if a.Op == OpExtract && b.Op == OpExtract && a.Args[0] == b.Args[0] {
		ah, al := int(a.Val>>8), int(a.Val&0xff)
		bh, bl := int(b.Val>>8), int(b.Val&0xff)
		if al == bh+1 {
			return c.Extract(a.Args[0], ah, bl)
		}
	}
	return c.mk(OpConcat, BV(w), []*Term{a, b}, 0, "")
}

func (c *TermCtx) Zext(a *Term, w int) *Term {
	if a.S.W == w {
		return a
	}
	if a.S.W > w {
		return c.Extract(a, w-1, 0)
	}
	if a.IsConst() {
		return c.Const(w, a.Val)
	}
	if a.Op == OpZext {
		return c.Zext(a.Args[0], w)
	}
	return c.mk(OpZext, BV(w), []*Term{a}, 0, "")
}

func (c *TermCtx) Sext(a *Term, w int) *Term {
	if a.S.W == w {
		return a
	}
	if a.S.W > w {
		return c.Extract(a, w-1, 0)
	}
	if a.IsConst() {
		return c.Const(w, uint64(a.SignedVal()))
	}
	if a.Op == OpZext {
		return c.Zext(a.Args[0], w)
	}
	return c.mk(OpSext, BV(w), []*Term{a}, 0, "")
}

func (c *TermCtx) ConstArr(w int, def *Term) *Term {
	return c.mk(OpConstArr, Arr(w), []*Term{def}, 0, "")
}
func (c *TermCtx) Select(arr, idx *Term) *Term {
	for arr.Op == OpStore {
		i := arr.Args[1]
		if i == idx {
			return arr.Args[2]
		}
		if i.IsConst() && idx.IsConst() {
			arr = arr.Args[0]
			continue
		}
		break
	}
	if arr.Op == OpConstArr {
		return arr.Args[0]
	}
	return c.mk(OpSelect, BV(arr.S.W), []*Term{arr, idx}, 0, "")
}
func (c *TermCtx) Store(arr, idx, v *Term) *Term {
	return c.mk(OpStore, arr.S, []*Term{arr, idx, v}, 0, "")
}

// UF applies an uninterpreted function.
func (c *TermCtx) UF(name string, ret Sort, args ...*Term) *Term {
	var sig strings.Builder
	sig.WriteString("(")
	for i, a := range args {
		if i > 0 {
			sig.WriteString(" ")
		}
		sig.WriteString(a.S.String())
	}
	sig.WriteString(") ")
	sig.WriteString(ret.String())
	if old, ok := c.ufs[name]; ok && old != sig.String() {
		panic("UF " + name + " redeclared with different signature")
	}
	c.ufs[name] = sig.String()
	return c.mk(OpUF, ret, args, 0, name)
}

func popcount(c *TermCtx, a *Term) *Term {
	if a.IsConst() {
		return c.Const(a.S.W, uint64(bits.OnesCount64(a.Val)))
	}
	w := a.S.W
	sum := c.Const(w, 0)
	for i := 0; i < w; i++ {
		sum = c.BvAdd(sum, c.Zext(c.Extract(a, i, i), w))
	}
	return sum
}

// ---------- printing ----------

type printer struct {
	sb       *strings.Builder
	defined  map[int]bool   // term IDs with a define-fun in the current solver context
	declared map[string]bool // vars / UFs declared
	ctx      *TermCtx
	pre      *strings.Builder // declarations & definitions to emit first
	inScope  bool
	journal  []string
}

const defineThreshold = 120

func (p *printer) ref(t *Term) string {
	switch t.Op {
	case OpConst:
		if t.S.K == SBool {
			if t.Val == 1 {
				return "true"
			}
			return "false"
		}
		if t.S.W%4 == 0 {
			return fmt.Sprintf("#x%0*x", t.S.W/4, t.Val)
		}
		return fmt.Sprintf("#b%0*b", t.S.W, t.Val)
	case OpVar:
		if !p.declared[t.Name] {
			p.declared[t.Name] = true
			if p.inScope {
				p.journal = append(p.journal, t.Name)
			}
			fmt.Fprintf(p.pre, "(declare-fun %s () %s)\n", t.Name, t.S)
		}
		return t.Name
	}
	if t.size > defineThreshold {
		if !p.defined[t.ID] {
			body := p.body(t)
			p.defined[t.ID] = true
			if p.inScope {
				p.journal = append(p.journal, "#"+strconv.Itoa(t.ID))
			}
			fmt.Fprintf(p.pre, "(define-fun t!%d () %s %s)\n", t.ID, t.S, body)
		}
		return "t!" + strconv.Itoa(t.ID)
	}
	return p.body(t)
}

func (p *printer) body(t *Term) string {
	switch t.Op {
	case OpConst, OpVar:
		return p.ref(t)
	case OpExtract:
		return fmt.Sprintf("((_ extract %d %d) %s)", t.Val>>8, t.Val&0xff, p.ref(t.Args[0]))
	case OpZext:
		return fmt.Sprintf("((_ zero_extend %d) %s)", t.S.W-t.Args[0].S.W, p.ref(t.Args[0]))
	case OpSext:
		return fmt.Sprintf("((_ sign_extend %d) %s)", t.S.W-t.Args[0].S.W, p.ref(t.Args[0]))
	case OpConstArr:
		return fmt.Sprintf("((as const %s) %s)", t.S, p.ref(t.Args[0]))
	case OpUF:
		if !p.declared["uf:"+t.Name] {
			p.declared["uf:"+t.Name] = true
			if p.inScope {
				p.journal = append(p.journal, "uf:"+t.Name)
			}
			fmt.Fprintf(p.pre, "(declare-fun %s %s)\n", t.Name, p.ctx.ufs[t.Name])
		}
		if len(t.Args) == 0 {
			return t.Name
		}
		var sb strings.Builder
		sb.WriteString("(" + t.Name)
		for _, a := range t.Args {
			sb.WriteString(" ")
			sb.WriteString(p.ref(a))
		}
		sb.WriteString(")")
		return sb.String()
	}
	var sb strings.Builder
	sb.WriteString("(")
	sb.WriteString(opNames[t.Op])
	for _, a := range t.Args {
		sb.WriteString(" ")
		sb.WriteString(p.ref(a))
	}
	sb.WriteString(")")
	return sb.String()
}

// String renders a term as a tree (for samples/debug); truncated.
func (t *Term) String() string {
	p := &printer{defined: map[int]bool{}, declared: map[string]bool{}, pre: &strings.Builder{}, ctx: nil}
	var f func(t *Term, d int) string
	f = func(t *Term, d int) string {
		if t.Op == OpConst || t.Op == OpVar {
			return p.ref(t)
		}
		if d > 6 {
			return "..."
		}
		switch t.Op {
		case OpExtract:
			return fmt.Sprintf("((_ extract %d %d) %s)", t.Val>>8, t.Val&0xff, f(t.Args[0], d+1))
		case OpZext:
			return fmt.Sprintf("(zext%d %s)", t.S.W, f(t.Args[0], d+1))
		case OpSext:
			return fmt.Sprintf("(sext%d %s)", t.S.W, f(t.Args[0], d+1))
		case OpConstArr:
			return fmt.Sprintf("(constarr %s)", f(t.Args[0], d+1))
		}
		n := opNames[t.Op]
		if t.Op == OpUF {
			n = t.Name
		}
		s := "(" + n
		for _, a := range t.Args {
			s += " " + f(a, d+1)
		}
		return s + ")"
	}
	s := f(t, 0)
	if len(s) > 400 {
		s = s[:400] + "..."
	}
	return s
}

func (t *Term) neg(c *TermCtx) *Term { return c.BvNeg(t) }

// splitAddConst splits t into (base, k) with t = base + k; base is t itself (k=0) when t is no constant addition.
func splitAddConst(t *Term) (*Term, uint64) {
	if t.Op == OpConst {
		return nil, t.Val
	}
	if t.Op == OpBvAdd && t.Args[1].IsConst() {
		return t.Args[0], t.Args[1].Val
	}
	return t, 0
}
