package main

import (
	"fmt"
	"go/token"
	"go/types"
	"sort"
	"strings"

	"golang.org/x/tools/go/ssa"
)

// pathEnd is thrown (via panic) to terminate the current path.
type pathEnd struct {
	Kind string // done | infeasible | gopanic | unsupported | unwind | stop | unknown
	Msg  string
}

type InputRec struct {
	Kind string  `json:"kind"` // u8 u16 u32 u64 int bool bytes choose
	Name string  `json:"name,omitempty"`
	Val  uint64  `json:"val"`
	Data []byte  `json:"data,omitempty"`
	Env  bool    `json:"env,omitempty"` // produced by an environment model, not consumed by the native harness
	term *Term   // scalar term
	obj  *Object // bytes object
	lenT *Term
}

type Violation struct {
	Harness string     `json:"harness"`
	Kind    string     `json:"kind"` // assert | panic
	Tag     string     `json:"tag"`
	Site    string     `json:"site"`
	Msg     string     `json:"msg,omitempty"`
	Trace   []int      `json:"trace"`
	Inputs  []InputRec `json:"inputs"`
	Stack   []string   `json:"stack,omitempty"`
	Events  []string   `json:"events,omitempty"`
	Params  map[string]int `json:"params,omitempty"`
	// filled by replay
	Replayed   bool   `json:"replayed"`
	ReplayNote string `json:"replay_note,omitempty"`
}

type Event struct {
	Name string
	Args []Value
}

type PathStats struct {
	Instrs      int64
	Obligations int
	Discharged  int
	Unknown     int
	Forks       int
	Merges      int
	SimpQueries int
	IntervalDecided int
	IntervalDischarged int
	Reached     map[string]bool
	Funcs       map[string]int
	Samples     []string
	Inconcl     []string
	Assumptions map[string]bool
	Blocks      map[*ssa.Function]map[int]bool // basic blocks executed (code-coverage report)
}

type Path struct {
	eng    *Engine
	h      *HarnessCfg
	tc     *TermCtx
	solver *Solver

	prefix []int
	pos    int
	trace  []int
	sibs   [][]int

	inputs  []*InputRec
	events  []Event
	symN    int
	objN    int
	globals map[*ssa.Global]*Object
	initRun map[*ssa.Package]bool
	lenient int
	depth   int
	stack   []*Frame
	readMemo map[[3]int]*Term
	ghost   map[string]Value

	violations []*Violation
	st         PathStats
	funcVals   map[*ssa.Function]*FuncV
	strConsts  map[string]*Object
	typeIDs    map[string]int
	lockEvents bool
	codecTag   string // struct tag key of the running vf.JSONCopy / vf.CBORCopy
	x25519Shared [][3]*Term // (lo, hi, shared secret) of every X25519 exchange so far: collision-free
	x25519IDs  []*Term // identifiers (first 64 bits) of the X25519 keys generated so far: pairwise distinct
	interleave   *FuncV            // vf.Interleave: pending operation of another thread
	inInterleave bool
	interleaveSites map[string]bool // static lock sites at which the preemption was already offered
	heldLocks    map[*Object][2]int // per mutex: holds by the main thread / by the interleaved operation
	guardedMaps map[*MapObj]string // vf.GuardMap: accesses are recorded as events "map:<name>"
	guard      *Term // extra guard active during merged (speculative) evaluation; nil otherwise
	noFork     bool  // set during speculative merge evaluation
	concArr    map[int]*Term
	isTemplate   bool
	cloneMemo    map[*Object]*Object
	cloneMaps    map[*MapObj]*MapObj
	pin          []InputRec
	bounds       map[*Term]ival
	noIntervals  bool
	impliedMemo  map[[2]int]int
	traceKeyS    string
	traceKeyN    int
	noSolverSimp bool
	mergeBaseObj int
	mergeDepth   int // len(p.stack) when the outermost merge region started
	extRanges    [][2]int // object id ranges (lo,hi] of globals created lazily inside a merge region
	mergeBudget  int64
}

type Frame struct {
	fn      *ssa.Function
	env     map[ssa.Value]Value
	defers  []*deferred
	block   *ssa.BasicBlock
	prev    *ssa.BasicBlock
	ifCount map[ssa.Instruction]int
	callSite ssa.Instruction
	curInstr ssa.Instruction
	phiDone  bool
	pendingPhi []Value
	hasPending bool
	pendingRet Value
	hasPendingRet bool
}

type deferred struct {
	fn   Value
	args []Value
	call *ssa.CallCommon
}

func (p *Path) end(kind, format string, a ...any) {
	if p.guard != nil {
		// the end is conditional on the arm's guard: evaluate the branch by forking instead
		panic(mergeAbort{"path end (" + kind + ") in merge region"})
	}
	panic(pathEnd{Kind: kind, Msg: fmt.Sprintf(format, a...)})
}

func (p *Path) unsupported(format string, a ...any) {
	msg := fmt.Sprintf(format, a...)
	if p.lenient > 0 {
		panic(lenientFail{msg})
	}
	p.end("unsupported", "%s at %s [%s]", msg, p.where(), strings.Join(p.stackStrings(), " < "))
}

type lenientFail struct{ msg string }

func (p *Path) where() string {
	if len(p.stack) == 0 {
		return "?"
	}
	f := p.stack[len(p.stack)-1]
	return p.sitePos(f)
}

func (p *Path) sitePos(f *Frame) string {
	pos := token.NoPos
	if f.curInstr != nil {
		pos = f.curInstr.Pos()
	}
	if pos == token.NoPos && f.curInstr != nil {
		// look backwards in block for a position
		b := f.curInstr.Block()
		for _, in := range b.Instrs {
			if in.Pos() != token.NoPos {
				pos = in.Pos()
			}
			if in == f.curInstr {
				break
			}
		}
	}
	if pos == token.NoPos {
		return f.fn.String()
	}
	ps := p.eng.prog.Fset.Position(pos)
	fn := ps.Filename
	if i := strings.Index(fn, "/repo/"); i >= 0 {
		fn = fn[i+6:]
	} else if i := strings.LastIndex(fn, "/src/"); i >= 0 {
		fn = fn[i+5:]
	}
	return fmt.Sprintf("%s:%d(%s)", fn, ps.Line, f.fn.Name())
}

func (p *Path) stackStrings() []string {
	var out []string
	for i := len(p.stack) - 1; i >= 0 && len(out) < 12; i-- {
		out = append(out, p.sitePos(p.stack[i]))
	}
	return out
}

// firstRepoSite returns the innermost stack site inside the repository (not
// the harness file), used as the stable identity of a finding.
func (p *Path) firstRepoSite() string {
	for i := len(p.stack) - 1; i >= 0; i-- {
		f := p.stack[i]
		if f.fn.Pkg == nil {
			continue
		}
		path := f.fn.Pkg.Pkg.Path()
		if !strings.HasPrefix(path, p.eng.modPath) || strings.HasSuffix(path, "/zzvf") {
			continue
		}
		pos := token.NoPos
		if f.curInstr != nil {
			pos = f.curInstr.Pos()
		}
		if pos != token.NoPos {
			fn := p.eng.prog.Fset.Position(pos).Filename
			if strings.Contains(fn, "zz_vf_") {
				continue
			}
		}
		// function-level identity (line numbers shift)
		return f.fn.String()
	}
	return p.where()
}

func (p *Path) fresh(prefix string, s Sort) *Term {
	p.symN++
	return p.tc.Var(fmt.Sprintf("%s!%d", prefix, p.symN), s)
}

func (p *Path) assertPC(t *Term) {
	if t.IsTrue() {
		return
	}
	p.solver.Assert(t)
	p.learn(t)
}

func (p *Path) withGuard(t *Term) *Term {
	if p.guard != nil {
		return p.tc.And(p.guard, t)
	}
	return t
}

// branch decides a symbolic condition, forking when both outcomes are feasible.
func (p *Path) branch(cond *Term) bool {
	if cond.IsConst() {
		return cond.Val == 1
	}
	if p.noFork {
		panic(mergeAbort{"symbolic branch in merge region"})
	}
	if p.pos < len(p.prefix) {
		d := p.prefix[p.pos]
		p.pos++
		p.trace = append(p.trace, d)
		if d == 1 {
			p.assertPC(cond)
		} else {
			p.assertPC(p.tc.Not(cond))
		}
		return d == 1
	}
	fT, fF := p.probe(cond)
	switch {
	case !fT && !fF:
		p.end("infeasible", "both branch outcomes infeasible")
	case !fT:
		p.take(cond, 0)
		return false
	case !fF:
		p.take(cond, 1)
		return true
	}
	return p.fork(cond)
}

// probe asks the solver which outcomes of cond are feasible under the path condition.
func (p *Path) probe(cond *Term) (bool, bool) {
	if !p.noIntervals {
		switch p.decide(cond, 0) {
		case 1:
			p.st.IntervalDecided++
			return true, false
		case -1:
			p.st.IntervalDecided++
			return false, true
		}
	}
	rT, _, e1 := p.solver.CheckWith(cond, nil)
	if rT == Unknown {
		p.st.Inconcl = append(p.st.Inconcl, "feasibility unknown at "+p.where()+" "+e1)
	}
	var rF SatResult
	if rT == Unsat {
		rF = Sat // path condition is satisfiable by invariant
	} else {
		var e2 string
		rF, _, e2 = p.solver.CheckWith(p.tc.Not(cond), nil)
		if rF == Unknown {
			p.st.Inconcl = append(p.st.Inconcl, "feasibility unknown at "+p.where()+" "+e2)
		}
	}
	return rT != Unsat, rF != Unsat
}

// take records a decision (forced or replayed) and asserts it.
func (p *Path) take(cond *Term, d int) {
	p.pos++
	p.trace = append(p.trace, d)
	if d == 1 {
		p.assertPC(cond)
	} else {
		p.assertPC(p.tc.Not(cond))
	}
}

// fork takes the true outcome and queues the false outcome as a sibling path.
func (p *Path) fork(cond *Term) bool {
	sib := make([]int, len(p.trace)+1)
	copy(sib, p.trace)
	sib[len(p.trace)] = 0
	p.sibs = append(p.sibs, sib)
	p.st.Forks++
	if p.eng.verbose {
		p.eng.mu.Lock()
		p.eng.forkSites[p.where()]++
		p.eng.mu.Unlock()
	}
	p.take(cond, 1)
	return true
}

// choose makes a concrete n-way fork.
func (p *Path) choose(n int) int {
	if n <= 1 {
		return 0
	}
	if p.noFork {
		panic(mergeAbort{"choose in merge region"})
	}
	if p.pos < len(p.prefix) {
		d := p.prefix[p.pos]
		p.pos++
		p.trace = append(p.trace, d)
		return d
	}
	for k := 1; k < n; k++ {
		sib := make([]int, len(p.trace)+1)
		copy(sib, p.trace)
		sib[len(p.trace)] = k
		p.sibs = append(p.sibs, sib)
	}
	p.st.Forks += n - 1
	p.pos++
	p.trace = append(p.trace, 0)
	return 0
}

// concretize forks over the possible values lo..hi-1 of t.
func (p *Path) concretize(t *Term, lo, hi int) int {
	if t.IsConst() {
		return int(t.SignedVal())
	}
	for v := lo; v < hi-1; v++ {
		if p.branch(p.tc.Eq(t, p.tc.Const(t.S.W, uint64(v)))) {
			return v
		}
	}
	// last candidate: must hold (caller guarantees range) – still assert it.
	p.assume(p.tc.Eq(t, p.tc.Const(t.S.W, uint64(hi-1))))
	return hi - 1
}

// assume adds a constraint; ends the path if it becomes infeasible.
func (p *Path) assume(c *Term) {
	if c.IsTrue() {
		return
	}
	if c.IsFalse() {
		p.end("infeasible", "assume(false)")
	}
	if p.pos < len(p.prefix) {
		p.assertPC(c)
		return
	}
	r, _, _ := p.solver.CheckWith(c, nil)
	if r == Unsat {
		p.end("infeasible", "assumption unsatisfiable")
	}
	p.assertPC(c)
}

// obligation checks that ok holds on every model of the path condition.
// kind: "assert" or "panic".
func (p *Path) obligation(ok *Term, kind, tag, msg string) {
	if p.guard != nil {
		ok = p.tc.Implies(p.guard, ok)
	}
	if ok.IsTrue() {
		return
	}
	if kind == "panic" && !p.h.NoPanic {
		// panics are not the subject of this harness: follow only the non-panicking executions
		if ok.IsFalse() {
			p.end("gopanic", "%s", msg)
		}
		if p.guard == nil {
			p.assertPCChecked(ok)
		}
		return
	}
	if p.pos < len(p.prefix) && p.pin == nil {
		// (when re-validating a counterexample with pinned inputs, branches that became concrete
		// may consume the recorded trace differently: every obligation is checked there)
		if ok.IsFalse() {
			p.end("stop", "violation already reported")
		}
		if p.guard == nil {
			p.assertPC(ok)
		}
		return
	}
	p.st.Obligations++
	if kind == "panic" && !p.noIntervals && p.decide(ok, 0) == 1 {
		// implicit-panic obligation decided by (sound) interval arithmetic over the path condition
		p.st.Discharged++
		p.st.IntervalDischarged++
		return
	}
	neg := p.tc.Not(ok)
	var v *Violation
	r, _, errtxt := p.solver.CheckWithModel(neg, func(get func([]*Term) []uint64) {
		v = p.buildViolation(kind, tag, msg, get)
	})
	switch r {
	case Unsat:
		p.st.Discharged++
		if len(p.st.Samples) < 3 {
			p.st.Samples = append(p.st.Samples, fmt.Sprintf("[%s %s @%s] unsat: (not %s)", kind, tag, p.where(), ok.String()))
		}
		return
	case Unknown:
		p.st.Unknown++
		p.st.Inconcl = append(p.st.Inconcl, fmt.Sprintf("obligation %s/%s unknown at %s %s", kind, tag, p.where(), errtxt))
		if p.guard == nil {
			p.assertPCChecked(ok)
		}
		return
	}
	p.violations = append(p.violations, v)
	if ok.IsFalse() {
		p.end("stop", "violation reported")
	}
	// continue on the executions where the obligation holds
	if p.guard == nil {
		p.assertPCChecked(ok)
	}
}

func (p *Path) assertPCChecked(ok *Term) {
	if p.pos >= len(p.prefix) {
		r, _, _ := p.solver.CheckWith(ok, nil)
		if r == Unsat {
			p.end("stop", "no execution continues past obligation")
		}
	}
	p.assertPC(ok)
}

func (p *Path) buildViolation(kind, tag, msg string, get func([]*Term) []uint64) *Violation {
	site := p.firstRepoSite()
	if kind == "assert" {
		site = p.h.Func[strings.LastIndex(p.h.Func, ".")+1:]
	}
	v := &Violation{Harness: p.h.Name, Kind: kind, Tag: tag, Msg: msg, Site: site,
		Trace: append([]int(nil), p.trace...), Stack: p.stackStrings(), Params: p.h.Params}
	// scalar inputs
	var terms []*Term
	for _, in := range p.inputs {
		if in.term != nil {
			terms = append(terms, in.term)
		}
		if in.lenT != nil {
			terms = append(terms, in.lenT)
		}
	}
	vals := get(terms)
	k := 0
	for _, in := range p.inputs {
		rec := InputRec{Kind: in.Kind, Name: in.Name, Val: in.Val, Env: in.Env}
		if in.term != nil {
			rec.Val = vals[k]
			k++
		}
		if in.lenT != nil {
			n := vals[k]
			k++
			rec.Val = n
			if n > 70000 {
				n = 70000
			}
			var sel []*Term
			for i := uint64(0); i < n; i++ {
				sel = append(sel, p.readElemAt(in.obj, 0, p.tc.Const(64, i)))
			}
			bs := get(sel)
			rec.Data = make([]byte, n)
			for i := range bs {
				rec.Data[i] = byte(bs[i])
			}
		}
		v.Inputs = append(v.Inputs, rec)
	}
	for _, e := range p.events {
		if len(v.Events) < 40 {
			v.Events = append(v.Events, e.Name)
		}
	}
	return v
}

func (p *Path) addInput(kind string, t *Term) {
	p.inputs = append(p.inputs, &InputRec{Kind: kind, term: t, Name: t.Name, Env: p.inModel()})
	p.pinInput(len(p.inputs) - 1)
}

// pinInput (symbolic re-validation of a counterexample): constrain the k-th
// input to the value recorded in the counterexample being re-validated.
func (p *Path) pinInput(k int) {
	if p.pin == nil || k >= len(p.pin) {
		return
	}
	rec := p.pin[k]
	in := p.inputs[k]
	if rec.Kind != in.Kind {
		p.end("internal", "re-validation: input %d is %s, counterexample has %s", k, in.Kind, rec.Kind)
	}
	tc := p.tc
	if in.term != nil {
		if in.term.S.K == SBool {
			p.assertPC(tc.Eq(in.term, tc.Bool(rec.Val != 0)))
		} else {
			p.assertPC(tc.Eq(in.term, tc.Const(in.term.S.W, rec.Val)))
		}
	}
	if in.lenT != nil {
		p.assertPC(tc.Eq(in.lenT, tc.Const(64, rec.Val)))
		for i := 0; i < len(rec.Data) && i < 4096; i++ {
			p.assertPC(tc.Eq(p.readElemAt(in.obj, 0, tc.Const(64, uint64(i))), tc.Const(8, uint64(rec.Data[i]))))
		}
	}
}

// inModel reports whether execution is inside a substituted environment model.
func (p *Path) inModel() bool {
	for _, f := range p.stack {
		if p.eng.isStubFn[f.fn] {
			return true
		}
	}
	return false
}

func (p *Path) note(assumption string) {
	if p.st.Assumptions == nil {
		p.st.Assumptions = map[string]bool{}
	}
	p.st.Assumptions[assumption] = true
}

func sortedKeys[V any](m map[string]V) []string {
	var ks []string
	for k := range m {
		ks = append(ks, k)
	}
	sort.Strings(ks)
	return ks
}

var _ = types.Typ
