package main

import (
	"fmt"
	"go/constant"
	"go/token"
	"go/types"
	"math"
	"strings"

	"golang.org/x/tools/go/ssa"
)

type mergeAbort struct{ why string }

const maxDepth = 200

// ---------- operand evaluation ----------

func (p *Path) get(fr *Frame, v ssa.Value) Value {
	switch x := v.(type) {
	case *ssa.Const:
		return p.constValue(x)
	case *ssa.Function:
		return p.funcValue(x)
	case *ssa.Global:
		return p.ptrTo(p.global(x))
	case *ssa.Builtin:
		return &FuncV{Builtin: x.Name()}
	}
	r, ok := fr.env[v]
	if !ok {
		p.unsupported("internal: value %s (%T) not defined in %s", v.Name(), v, fr.fn)
	}
	if po, isP := r.(Poison); isP && p.lenient == 0 {
		p.end("unsupported", "use of value that could not be initialised: %s at %s", po.Why, p.where())
	}
	return r
}

func (p *Path) funcValue(f *ssa.Function) *FuncV {
	if p.funcVals == nil {
		p.funcVals = map[*ssa.Function]*FuncV{}
	}
	if fv, ok := p.funcVals[f]; ok {
		return fv
	}
	fv := &FuncV{Fn: f}
	p.funcVals[f] = fv
	return fv
}

func (p *Path) constValue(c *ssa.Const) Value {
	t := c.Type()
	if c.Value == nil {
		return p.zero(t)
	}
	switch u := t.Underlying().(type) {
	case *types.Basic:
		switch {
		case u.Info()&types.IsBoolean != 0:
			return p.tc.Bool(constant.BoolVal(c.Value))
		case u.Info()&types.IsInteger != 0:
			w := typeWidth(t)
			if i, ok := constant.Int64Val(constant.ToInt(c.Value)); ok {
				return p.tc.Const(w, uint64(i))
			}
			uv, _ := constant.Uint64Val(constant.ToInt(c.Value))
			return p.tc.Const(w, uv)
		case u.Info()&types.IsFloat != 0:
			f, _ := constant.Float64Val(c.Value)
			w := 64
			if u.Kind() == types.Float32 {
				w = 32
				f = float64(float32(f))
			}
			return FloatV{f, w}
		case u.Info()&types.IsString != 0:
			return p.constString(constant.StringVal(c.Value))
		}
	}
	p.unsupported("constant of type %s", t)
	return nil
}

// ---------- globals and package init ----------

func (p *Path) global(g *ssa.Global) *Object {
	if o, ok := p.globals[g]; ok {
		return o
	}
	if p.guard != nil {
		lo := p.objN
		defer func() { p.extRanges = append(p.extRanges, [2]int{lo, p.objN}) }()
	}
	// make sure the owning package is initialised (if it is one we interpret)
	if g.Pkg != nil && p.eng.initPkg(g.Pkg.Pkg.Path()) && !p.initRun[g.Pkg] {
		p.runInit(g.Pkg)
		if o, ok := p.globals[g]; ok {
			return o
		}
	}
	elem := g.Type().(*types.Pointer).Elem()
	o := p.newObject(elem, g.String())
	p.globals[g] = o
	name := g.String()
	if g.Pkg != nil && !p.eng.initPkg(g.Pkg.Pkg.Path()) {
		switch {
		case name == "net/netip.z4" || name == "net/netip.z6noz":
			// unique.Handle[addrDetail]{value *addrDetail}: give each a distinct non-nil pointee
			if len(o.Fields) == 1 {
				pt := o.Fields[0].Typ.(*types.Pointer)
				d := p.newObject(pt.Elem(), name+"$detail")
				o.Fields[0].Val = &PtrV{Obj: d}
			}
		case types.Identical(elem, types.Universe.Lookup("error").Type()):
			// sentinel error of a package whose init we do not interpret
			o.Val = p.sentinelError(name)
		}
	}
	return o
}

func (p *Path) sentinelError(name string) *IfaceV {
	et := p.eng.errorStringType()
	if et == nil {
		p.unsupported("errors.errorString type not found")
	}
	obj := p.newObject(et, "sentinel:"+name)
	obj.Fields[0].Val = p.constString(name)
	return &IfaceV{Typ: types.NewPointer(et), Val: &PtrV{Obj: obj}}
}

func (p *Path) runInit(pkg *ssa.Package) {
	if p.initRun[pkg] {
		return
	}
	if !p.isTemplate && !p.eng.noTemplate {
		p.initRun[pkg] = true
		p.initFromTemplate(pkg)
		return
	}
	p.runInitDirect(pkg)
}

func (p *Path) runInitDirect(pkg *ssa.Package) {
	if p.initRun[pkg] {
		return
	}
	p.initRun[pkg] = true
	initFn := pkg.Func("init")
	if initFn == nil || initFn.Blocks == nil {
		return
	}
	p.lenient++
	saveGuard, saveNoFork := p.guard, p.noFork
	p.guard, p.noFork = nil, false
	defer func() { p.lenient--; p.guard, p.noFork = saveGuard, saveNoFork }()
	p.runFunction(initFn, nil, nil, nil)
}

// ---------- function execution ----------

func (p *Path) runFunction(fn *ssa.Function, args []Value, bindings []Value, site ssa.Instruction) (ret Value) {
	if len(p.stack) > maxDepth {
		p.unsupported("call depth exceeds %d (recursion?) in %s", maxDepth, fn)
	}
	if fn.Blocks == nil {
		p.unsupported("function without body: %s", fn)
	}
	fr := &Frame{fn: fn, env: make(map[ssa.Value]Value, 32), callSite: site}
	if len(args) != len(fn.Params) {
		p.unsupported("internal: arg count mismatch calling %s: %d vs %d", fn, len(args), len(fn.Params))
	}
	for i, prm := range fn.Params {
		fr.env[prm] = args[i]
	}
	for i, fv := range fn.FreeVars {
		fr.env[fv] = bindings[i]
	}
	p.stack = append(p.stack, fr)
	depth := len(p.stack)
	if p.st.Funcs != nil && p.lenient == 0 {
		p.st.Funcs[fn.String()]++
	}
	ret = p.runBlocks(fr, fn.Blocks[0], nil)
	p.stack = p.stack[:depth-1]
	return ret
}

// runBlocks interprets from block b until the function returns (stop == nil)
// or control reaches stop (merge-region evaluation).
func (p *Path) runBlocks(fr *Frame, b *ssa.BasicBlock, stop *ssa.BasicBlock) Value {
	lenient := p.lenient > 0
	for {
		if b == stop {
			return nil
		}
		fr.block = b
		if p.st.Blocks != nil && fr.fn.Pkg != nil {
			bm := p.st.Blocks[fr.fn]
			if bm == nil {
				bm = map[int]bool{}
				p.st.Blocks[fr.fn] = bm
			}
			bm[b.Index] = true
		}
		// phis first (parallel assignment)
		nphi := 0
		for _, in := range b.Instrs {
			if _, ok := in.(*ssa.Phi); ok {
				nphi++
			} else {
				break
			}
		}
		if fr.phiDone {
			fr.phiDone = false
		} else if nphi > 0 {
			idx := -1
			for i, pr := range b.Preds {
				if pr == fr.prev {
					idx = i
					break
				}
			}
			if idx < 0 {
				p.unsupported("internal: phi predecessor not found")
			}
			vals := make([]Value, nphi)
			for i := 0; i < nphi; i++ {
				vals[i] = p.get(fr, b.Instrs[i].(*ssa.Phi).Edges[idx])
			}
			for i := 0; i < nphi; i++ {
				fr.env[b.Instrs[i].(*ssa.Phi)] = vals[i]
			}
		}
		var next *ssa.BasicBlock
		for _, instr := range b.Instrs[nphi:] {
			fr.curInstr = instr
			p.st.Instrs++
			if p.noFork && p.st.Instrs > p.mergeBudget {
				panic(mergeAbort{"merge budget"})
			}
			if p.st.Instrs > p.eng.maxInstrs {
				p.end("unwind", "instruction budget exceeded (%d)", p.eng.maxInstrs)
			}
			switch in := instr.(type) {
			case *ssa.If:
				cv := p.get(fr, in.Cond)
				cond, ok := cv.(*Term)
				if !ok {
					p.unsupported("non-term condition %T", cv)
				}
				if !cond.IsConst() {
					merged, taken := p.decideIf(fr, in, cond, stop)
					if !merged {
						// unwinding assertion: counts decided (forced or forked) symbolic branches, not ite-merged ones
						if fr.ifCount == nil {
							fr.ifCount = map[ssa.Instruction]int{}
						}
						fr.ifCount[in]++
						if fr.ifCount[in] > p.h.Unwind {
							p.end("unwind", "unwinding assertion: symbolic branch at %s taken more than %d times", p.where(), p.h.Unwind)
						}
					}
					if merged {
						next = fr.block // tryMerge positioned us at the join block
						if next == exitSentinel && stop == nil {
							v := fr.pendingRet
							fr.pendingRet, fr.hasPendingRet = nil, false
							return v
						}
						goto nextBlock
					}
					if taken {
						next = b.Succs[0]
					} else {
						next = b.Succs[1]
					}
					fr.prev = b
					goto nextBlock
				}
				if p.branch(cond) {
					next = b.Succs[0]
				} else {
					next = b.Succs[1]
				}
				fr.prev = b
				goto nextBlock
			case *ssa.Jump:
				next = b.Succs[0]
				fr.prev = b
				goto nextBlock
			case *ssa.Return:
				if stop != nil && stop != exitSentinel {
					panic(mergeAbort{"return inside merge region"})
				}
				var rv Value
				switch len(in.Results) {
				case 0:
				case 1:
					rv = p.get(fr, in.Results[0])
				default:
					tv := make(TupleV, len(in.Results))
					for i, r := range in.Results {
						tv[i] = p.get(fr, r)
					}
					rv = tv
				}
				if stop == exitSentinel {
					fr.pendingRet, fr.hasPendingRet = rv, true
					return nil
				}
				return rv
			case *ssa.Panic:
				if p.noFork {
					panic(mergeAbort{"panic in merge region"})
				}
				p.goPanic(fr, p.get(fr, in.X))
			case *ssa.Store:
				addr := p.get(fr, in.Addr)
				val := p.get(fr, in.Val)
				ptr, ok := addr.(*PtrV)
				if !ok {
					if lenient {
						continue
					}
					p.unsupported("store through %T", addr)
				}
				p.nilCheck(ptr, "nil pointer dereference (store)")
				p.store(ptr, val)
			case *ssa.MapUpdate:
				p.mapUpdate(p.get(fr, in.Map), p.get(fr, in.Key), p.get(fr, in.Value))
			case *ssa.Defer:
				if p.guard != nil && len(p.stack) <= p.mergeDepth {
					panic(mergeAbort{"defer in the frame of the merge region"})
				}
				d := &deferred{call: &in.Call}
				d.fn, d.args = p.prepareCall(fr, &in.Call)
				fr.defers = append(fr.defers, d)
			case *ssa.RunDefers:
				p.runDefers(fr)
			case *ssa.Go:
				fnv, args := p.prepareCall(fr, &in.Call)
				if p.guard != nil {
					panic(mergeAbort{"go statement in merge region"})
				}
				p.events = append(p.events, Event{Name: "go", Args: append([]Value{fnv}, args...)})
			case *ssa.Send:
				ch := p.get(fr, in.Chan)
				p.chanSend(ch, p.get(fr, in.X))
			case *ssa.DebugRef:
			case ssa.Value:
				if lenient {
					fr.env[in] = p.evalLenient(fr, in)
				} else {
					fr.env[in] = p.eval(fr, in)
				}
			default:
				p.unsupported("instruction %T", instr)
			}
		}
		p.unsupported("internal: block without terminator")
	nextBlock:
		b = next
	}
}

func (p *Path) evalLenient(fr *Frame, in ssa.Value) (v Value) {
	depth := len(p.stack)
	defer func() {
		if r := recover(); r != nil {
			if lf, ok := r.(lenientFail); ok {
				v = Poison{lf.msg}
				p.stack = p.stack[:depth]
				return
			}
			if pe, ok := r.(pathEnd); ok && p.isTemplate {
				v = Poison{pe.Msg}
				p.stack = p.stack[:depth]
				return
			}
			panic(r)
		}
	}()
	v = p.eval(fr, in)
	p.stack = p.stack[:depth]
	return v
}

func (p *Path) runDefers(fr *Frame) {
	for len(fr.defers) > 0 {
		d := fr.defers[len(fr.defers)-1]
		fr.defers = fr.defers[:len(fr.defers)-1]
		p.invoke(d.fn, d.args, fr.curInstr)
	}
}

func (p *Path) goPanic(fr *Frame, v Value) {
	msg := "panic"
	if iv, ok := v.(*IfaceV); ok && iv.Typ != nil {
		if s, ok := iv.Val.(*SliceV); ok && s.IsString {
			if str, ok := p.concreteString(s); ok {
				msg = "panic: " + str
			}
		} else {
			msg = "panic(" + iv.Typ.String() + ")"
		}
	}
	p.obligation(p.tc.False, "panic", "explicit-panic", msg)
	p.end("gopanic", "%s", msg)
}

func (p *Path) nilCheck(ptr *PtrV, what string) {
	if ptr.Obj == nil {
		p.obligation(p.tc.False, "panic", "nil-deref", what)
		p.end("gopanic", "%s", what)
	}
}

// decideIf handles a symbolic If: inside a merge region it only merges; at the
// top level it first asks which outcomes are feasible (a forced branch is
// followed, never merged), then tries to ite-merge the two arms, and forks
// otherwise. Merges are recorded in the decision trace (value 2) so that a
// replayed prefix reproduces them.
func (p *Path) decideIf(fr *Frame, in *ssa.If, cond *Term, stop *ssa.BasicBlock) (merged, taken bool) {
	if p.noFork {
		if p.tryMerge(fr, in, cond, stop) {
			return true, false
		}
		panic(mergeAbort{"symbolic branch in merge region"})
	}
	if p.pos < len(p.prefix) {
		if p.prefix[p.pos] == 2 {
			p.pos++
			p.trace = append(p.trace, 2)
			if !p.tryMerge(fr, in, cond, stop) {
				p.end("internal", "replay divergence: merge not reproducible at %s", p.where())
			}
			return true, false
		}
		return false, p.branch(cond)
	}
	fT, fF := p.probe(cond)
	switch {
	case !fT && !fF:
		p.end("infeasible", "both branch outcomes infeasible")
	case !fT:
		p.take(cond, 0)
		return false, false
	case !fF:
		p.take(cond, 1)
		return false, true
	}
	if p.tryMerge(fr, in, cond, stop) {
		p.pos++
		p.trace = append(p.trace, 2)
		return true, false
	}
	return false, p.fork(cond)
}

// ---------- instruction evaluation ----------

func (p *Path) eval(fr *Frame, instr ssa.Value) Value {
	tc := p.tc
	switch in := instr.(type) {
	case *ssa.Alloc:
		elem := in.Type().(*types.Pointer).Elem()
		o := p.newObject(elem, in.Comment)
		return p.ptrTo(o)
	case *ssa.BinOp:
		return p.binop(in.Op, p.get(fr, in.X), p.get(fr, in.Y), in.X.Type(), in.Y.Type())
	case *ssa.UnOp:
		x := p.get(fr, in.X)
		switch in.Op {
		case token.MUL:
			ptr, ok := x.(*PtrV)
			if !ok {
				p.unsupported("deref of %T", x)
			}
			p.nilCheck(ptr, "nil pointer dereference")
			return p.load(ptr, in.Type())
		case token.NOT:
			return tc.Not(x.(*Term))
		case token.SUB:
			if f, ok := x.(FloatV); ok {
				return FloatV{-f.F, f.W}
			}
			return tc.BvNeg(x.(*Term))
		case token.XOR:
			return tc.BvNot(x.(*Term))
		case token.ARROW:
			et := in.Type()
			if ct, ok := in.X.Type().Underlying().(*types.Chan); ok {
				et = ct.Elem()
			}
			return p.chanRecv(x, in.CommaOk, et)
		}
		p.unsupported("unop %s", in.Op)
	case *ssa.Call:
		fnv, args := p.prepareCall(fr, &in.Call)
		return p.invoke(fnv, args, in)
	case *ssa.ChangeInterface:
		return p.get(fr, in.X)
	case *ssa.ChangeType:
		v := p.get(fr, in.X)
		if sv, ok := v.(*StructV); ok {
			return &StructV{Typ: in.Type(), Fields: sv.Fields}
		}
		return v
	case *ssa.Convert:
		return p.convert(p.get(fr, in.X), in.X.Type(), in.Type())
	case *ssa.MultiConvert:
		return p.convert(p.get(fr, in.X), in.X.Type(), in.Type())
	case *ssa.Extract:
		t := p.get(fr, in.Tuple)
		tv, ok := t.(TupleV)
		if !ok {
			p.unsupported("extract from %T", t)
		}
		return tv[in.Index]
	case *ssa.Field:
		sv, ok := p.get(fr, in.X).(*StructV)
		if !ok {
			p.unsupported("field of %T", p.get(fr, in.X))
		}
		return sv.Fields[in.Field]
	case *ssa.FieldAddr:
		x := p.get(fr, in.X)
		ptr, ok := x.(*PtrV)
		if !ok {
			p.unsupported("fieldaddr of %T", x)
		}
		p.nilCheck(ptr, "nil pointer dereference (field "+fieldName(in)+")")
		if ptr.Obj.Fields == nil {
			p.unsupported("fieldaddr on non-struct object %s (%s)", ptr.Obj.Name, ptr.Obj.Typ)
		}
		return p.ptrTo(ptr.Obj.Fields[in.Field])
	case *ssa.Index:
		x := p.get(fr, in.X)
		idx := p.toInt64(p.get(fr, in.Index).(*Term), in.Index.Type())
		switch xv := x.(type) {
		case *ArrayV:
			n := len(xv.Elems)
			p.obligation(tc.Ult(idx, tc.Const(64, uint64(n))), "panic", "index-range", "index out of range")
			if idx.IsConst() {
				return xv.Elems[idx.Val]
			}
			if n > 0 {
				if _, isT := xv.Elems[0].(*Term); isT {
					res := xv.Elems[n-1].(*Term)
					for i := n - 2; i >= 0; i-- {
						res = tc.Ite(tc.Eq(idx, tc.Const(64, uint64(i))), xv.Elems[i].(*Term), res)
					}
					return res
				}
			}
			k := p.concretize(idx, 0, n)
			return xv.Elems[k]
		case *SliceV: // string index handled by Lookup; generic code may index strings
			p.obligation(tc.Ult(idx, xv.Len), "panic", "index-range", "index out of range")
			return p.readElem(xv.Obj, tc.BvAdd(xv.Off, idx))
		}
		p.unsupported("index of %T", x)
	case *ssa.IndexAddr:
		return p.indexAddr(fr, in)
	case *ssa.Lookup:
		x := p.get(fr, in.X)
		if s, ok := x.(*SliceV); ok { // string index
			idx := p.toInt64(p.get(fr, in.Index).(*Term), in.Index.Type())
			p.obligation(tc.Ult(idx, s.Len), "panic", "index-range", "string index out of range")
			return p.readElem(s.Obj, tc.BvAdd(s.Off, idx))
		}
		return p.mapLookup(x, p.get(fr, in.Index), in.CommaOk, in.X.Type().Underlying().(*types.Map).Elem())
	case *ssa.MakeClosure:
		fn := in.Fn.(*ssa.Function)
		b := make([]Value, len(in.Bindings))
		for i, bv := range in.Bindings {
			b[i] = p.get(fr, bv)
		}
		return &FuncV{Fn: fn, Bindings: b}
	case *ssa.MakeInterface:
		return &IfaceV{Typ: in.X.Type(), Val: p.get(fr, in.X)}
	case *ssa.MakeMap:
		p.objN++
		return &MapV{M: &MapObj{ID: p.objN, Typ: in.Type().Underlying().(*types.Map)}}
	case *ssa.MakeChan:
		p.objN++
		sz := p.get(fr, in.Size).(*Term)
		c := 0
		if sz.IsConst() {
			c = int(sz.Val)
		} else {
			c = 1 << 20
		}
		return &ChanV{ID: p.objN, Cap: c}
	case *ssa.MakeSlice:
		return p.makeSlice(fr, in)
	case *ssa.Slice:
		return p.sliceOp(fr, in)
	case *ssa.SliceToArrayPointer:
		s := p.get(fr, in.X).(*SliceV)
		at := in.Type().(*types.Pointer).Elem().Underlying().(*types.Array)
		n := uint64(at.Len())
		p.obligation(tc.Ule(tc.Const(64, n), s.Len), "panic", "slice-to-array", "cannot convert slice to array pointer: length too short")
		if s.Obj == nil {
			return &PtrV{}
		}
		if s.Obj.IsBytes {
			return &PtrV{Obj: s.Obj, Idx: s.Off, Win: true}
		}
		p.unsupported("slice to array pointer of non-byte slice")
	case *ssa.TypeAssert:
		return p.typeAssert(fr, in)
	case *ssa.Range:
		return p.rangeStart(p.get(fr, in.X))
	case *ssa.Next:
		return p.rangeNext(p.get(fr, in.Iter).(*IterV), in)
	case *ssa.Select:
		return p.selectOp(fr, in)
	case *ssa.Phi:
		p.unsupported("internal: phi evaluated out of order")
	}
	p.unsupported("instruction %T (%s)", instr, instr)
	return nil
}

func fieldName(in *ssa.FieldAddr) string {
	st := in.X.Type().(*types.Pointer).Elem().Underlying().(*types.Struct)
	return st.Field(in.Field).Name()
}

// toInt64 widens an index/length operand to 64 bits according to its type.
func (p *Path) toInt64(t *Term, ty types.Type) *Term {
	if t.S.W == 64 {
		return t
	}
	if isSigned(ty) {
		return p.tc.Sext(t, 64)
	}
	return p.tc.Zext(t, 64)
}

func (p *Path) indexAddr(fr *Frame, in *ssa.IndexAddr) Value {
	tc := p.tc
	x := p.get(fr, in.X)
	idx := p.toInt64(p.get(fr, in.Index).(*Term), in.Index.Type())
	switch xv := x.(type) {
	case *SliceV:
		p.obligation(tc.Ult(idx, xv.Len), "panic", "index-range", "index out of range")
		if xv.Obj == nil {
			p.end("infeasible", "index of nil slice")
		}
		pos := tc.BvAdd(xv.Off, idx)
		if xv.Obj.IsBytes {
			return &PtrV{Obj: xv.Obj, Idx: pos}
		}
		k := p.concretize(pos, 0, len(xv.Obj.Elems))
		return p.ptrTo(xv.Obj.Elems[k])
	case *PtrV:
		p.nilCheck(xv, "nil pointer dereference (index)")
		at := in.X.Type().(*types.Pointer).Elem().Underlying().(*types.Array)
		p.obligation(tc.Ult(idx, tc.Const(64, uint64(at.Len()))), "panic", "index-range", "index out of range")
		if xv.Win {
			return &PtrV{Obj: xv.Obj, Idx: tc.BvAdd(xv.Idx, idx)}
		}
		if xv.Obj.Elems == nil {
			p.unsupported("indexaddr into object without elements")
		}
		k := p.concretize(idx, 0, len(xv.Obj.Elems))
		return p.ptrTo(xv.Obj.Elems[k])
	}
	p.unsupported("indexaddr of %T", x)
	return nil
}

func (p *Path) makeSlice(fr *Frame, in *ssa.MakeSlice) Value {
	tc := p.tc
	ln := p.toInt64(p.get(fr, in.Len).(*Term), in.Len.Type())
	cp := p.toInt64(p.get(fr, in.Cap).(*Term), in.Cap.Type())
	elem := in.Type().Underlying().(*types.Slice).Elem()
	lim := tc.Const(64, 1<<40)
	p.obligation(tc.And(tc.Ult(ln, lim), tc.And(tc.Ult(cp, lim), tc.Ule(ln, cp))), "panic", "makeslice", "makeslice: len/cap out of range")
	if w, ok := byteStoreElem(elem); ok {
		o := p.newByteStore(elem, w, cp, false, "make")
		return &SliceV{Obj: o, Off: tc.Const(64, 0), Len: ln, Cap: cp}
	}
	n := p.concretize(cp, 0, p.eng.maxElems+1)
	o := p.newElemStore(elem, n, "make")
	return &SliceV{Obj: o, Off: tc.Const(64, 0), Len: ln, Cap: tc.Const(64, uint64(n))}
}

func (p *Path) sliceOp(fr *Frame, in *ssa.Slice) Value {
	tc := p.tc
	x := p.get(fr, in.X)
	var base *SliceV
	switch xv := x.(type) {
	case *SliceV:
		base = xv
	case *PtrV:
		p.nilCheck(xv, "nil pointer dereference (slice of array)")
		at := in.X.Type().(*types.Pointer).Elem().Underlying().(*types.Array)
		n := tc.Const(64, uint64(at.Len()))
		if xv.Win {
			base = &SliceV{Obj: xv.Obj, Off: xv.Idx, Len: n, Cap: n}
		} else {
			base = &SliceV{Obj: xv.Obj, Off: tc.Const(64, 0), Len: n, Cap: n}
		}
	default:
		p.unsupported("slice of %T", x)
	}
	lo := tc.Const(64, 0)
	if in.Low != nil {
		lo = p.toInt64(p.get(fr, in.Low).(*Term), in.Low.Type())
	}
	var hi *Term
	if in.High != nil {
		hi = p.toInt64(p.get(fr, in.High).(*Term), in.High.Type())
	} else {
		hi = base.Len
	}
	limit := base.Cap
	if base.IsString {
		limit = base.Len
	}
	var mx *Term
	if in.Max != nil {
		mx = p.toInt64(p.get(fr, in.Max).(*Term), in.Max.Type())
		p.obligation(tc.And(tc.Ule(lo, hi), tc.And(tc.Ule(hi, mx), tc.Ule(mx, limit))), "panic", "slice-bounds", "slice bounds out of range")
	} else {
		mx = limit
		p.obligation(tc.And(tc.Ule(lo, hi), tc.Ule(hi, limit)), "panic", "slice-bounds", "slice bounds out of range")
	}
	if base.Obj == nil {
		return base
	}
	return &SliceV{Obj: base.Obj, Off: tc.BvAdd(base.Off, lo), Len: tc.BvSub(hi, lo), Cap: tc.BvSub(mx, lo), IsString: base.IsString}
}

// ---------- binary operations ----------

func (p *Path) binop(op token.Token, x, y Value, xt, yt types.Type) Value {
	tc := p.tc
	switch xv := x.(type) {
	case *Term:
		yv, ok := y.(*Term)
		if !ok {
			p.unsupported("binop %s on Term and %T", op, y)
		}
		if xv.S.K == SBool {
			switch op {
			case token.EQL:
				return tc.Eq(xv, yv)
			case token.NEQ:
				return tc.Not(tc.Eq(xv, yv))
			case token.AND, token.LAND:
				return tc.And(xv, yv)
			case token.OR, token.LOR:
				return tc.Or(xv, yv)
			}
			p.unsupported("bool binop %s", op)
		}
		signed := isSigned(xt)
		switch op {
		case token.ADD:
			return tc.BvAdd(xv, yv)
		case token.SUB:
			return tc.BvSub(xv, yv)
		case token.MUL:
			return tc.BvMul(xv, yv)
		case token.QUO, token.REM:
			p.obligation(tc.Not(tc.Eq(yv, tc.Const(yv.S.W, 0))), "panic", "div-zero", "integer divide by zero")
			if signed {
				if op == token.QUO {
					return tc.BvSDiv(xv, yv)
				}
				return tc.BvSRem(xv, yv)
			}
			if op == token.QUO {
				return tc.BvUDiv(xv, yv)
			}
			return tc.BvURem(xv, yv)
		case token.AND:
			return tc.BvAnd(xv, yv)
		case token.OR:
			return tc.BvOr(xv, yv)
		case token.XOR:
			return tc.BvXor(xv, yv)
		case token.AND_NOT:
			return tc.BvAnd(xv, tc.BvNot(yv))
		case token.SHL, token.SHR:
			w := xv.S.W
			if isSigned(yt) {
				p.obligation(tc.Sle(tc.Const(yv.S.W, 0), yv), "panic", "neg-shift", "negative shift amount")
			}
			var big *Term = tc.False
			sh := yv
			if yv.S.W > w {
				big = tc.Ule(tc.Const(yv.S.W, uint64(w)), yv)
				sh = tc.Extract(yv, w-1, 0)
			} else if yv.S.W < w {
				sh = tc.Zext(yv, w)
			}
			var r, fill *Term
			switch {
			case op == token.SHL:
				r, fill = tc.BvShl(xv, sh), tc.Const(w, 0)
			case signed:
				r, fill = tc.BvAShr(xv, sh), tc.BvAShr(xv, tc.Const(w, uint64(w-1)))
			default:
				r, fill = tc.BvLShr(xv, sh), tc.Const(w, 0)
			}
			return tc.Ite(big, fill, r)
		case token.EQL:
			return tc.Eq(xv, yv)
		case token.NEQ:
			return tc.Not(tc.Eq(xv, yv))
		case token.LSS:
			if signed {
				return tc.Slt(xv, yv)
			}
			return tc.Ult(xv, yv)
		case token.LEQ:
			if signed {
				return tc.Sle(xv, yv)
			}
			return tc.Ule(xv, yv)
		case token.GTR:
			if signed {
				return tc.Slt(yv, xv)
			}
			return tc.Ult(yv, xv)
		case token.GEQ:
			if signed {
				return tc.Sle(yv, xv)
			}
			return tc.Ule(yv, xv)
		}
		p.unsupported("int binop %s", op)
	case FloatV:
		yv, ok := y.(FloatV)
		if !ok {
			p.unsupported("float binop with %T", y)
		}
		if xv.W == -1 || yv.W == -1 {
			// over-approximated float
			switch op {
			case token.ADD, token.SUB, token.MUL, token.QUO:
				return FloatV{0, -1}
			default:
				p.note("comparison on over-approximated float treated as nondeterministic")
				b := p.fresh("fcmp", BoolSort)
				return b
			}
		}
		var r float64
		switch op {
		case token.ADD:
			r = xv.F + yv.F
		case token.SUB:
			r = xv.F - yv.F
		case token.MUL:
			r = xv.F * yv.F
		case token.QUO:
			r = xv.F / yv.F
		case token.EQL:
			return tc.Bool(xv.F == yv.F)
		case token.NEQ:
			return tc.Bool(xv.F != yv.F)
		case token.LSS:
			return tc.Bool(xv.F < yv.F)
		case token.LEQ:
			return tc.Bool(xv.F <= yv.F)
		case token.GTR:
			return tc.Bool(xv.F > yv.F)
		case token.GEQ:
			return tc.Bool(xv.F >= yv.F)
		default:
			p.unsupported("float binop %s", op)
		}
		if xv.W == 32 {
			r = float64(float32(r))
		}
		return FloatV{r, xv.W}
	case *SliceV:
		yv, ok := y.(*SliceV)
		if !ok {
			p.unsupported("string binop with %T", y)
		}
		if !xv.IsString && !yv.IsString {
			switch op {
			case token.EQL:
				return p.valueEq(x, y)
			case token.NEQ:
				return tc.Not(p.valueEq(x, y))
			}
			p.unsupported("slice comparison")
		}
		switch op {
		case token.ADD:
			return p.stringConcat(xv, yv)
		case token.EQL:
			return p.stringEq(xv, yv)
		case token.NEQ:
			return tc.Not(p.stringEq(xv, yv))
		case token.LSS, token.LEQ, token.GTR, token.GEQ:
			a, ok1 := p.concreteString(xv)
			b, ok2 := p.concreteString(yv)
			if !ok1 || !ok2 {
				p.unsupported("ordering of symbolic strings")
			}
			switch op {
			case token.LSS:
				return tc.Bool(a < b)
			case token.LEQ:
				return tc.Bool(a <= b)
			case token.GTR:
				return tc.Bool(a > b)
			default:
				return tc.Bool(a >= b)
			}
		}
	}
	switch op {
	case token.EQL:
		return p.valueEq(x, y)
	case token.NEQ:
		return tc.Not(p.valueEq(x, y))
	}
	p.unsupported("binop %s on %T", op, x)
	return nil
}

func (p *Path) stringConcat(a, b *SliceV) Value {
	tc := p.tc
	if as, ok := p.concreteString(a); ok {
		if bs, ok := p.concreteString(b); ok {
			return p.constString(as + bs)
		}
	}
	n := tc.BvAdd(a.Len, b.Len)
	o := p.newByteStore(types.Typ[types.Uint8], 8, n, false, "concat")
	if a.Obj != nil {
		p.copyElems(o, tc.Const(64, 0), a.Obj, a.Off, a.Len)
	}
	if b.Obj != nil {
		p.copyElems(o, a.Len, b.Obj, b.Off, b.Len)
	}
	return &SliceV{Obj: o, Off: tc.Const(64, 0), Len: n, Cap: n, IsString: true}
}

// stringEq compares two strings/byte ranges. Symbolic lengths are supported
// when at least one side has a concrete length.
func (p *Path) stringEq(a, b *SliceV) *Term {
	tc := p.tc
	if a.Len.IsConst() && b.Len.IsConst() && a.Len.Val != b.Len.Val {
		return tc.False
	}
	lenEq := tc.Eq(a.Len, b.Len)
	var n uint64
	switch {
	case a.Len.IsConst():
		n = a.Len.Val
	case b.Len.IsConst():
		n = b.Len.Val
	default:
		if a.Obj == b.Obj && a.Off == b.Off {
			return lenEq
		}
		p.unsupported("equality of two strings with symbolic lengths")
	}
	if n > 4096 {
		p.unsupported("string equality over %d bytes", n)
	}
	res := lenEq
	if a.Obj == nil || b.Obj == nil {
		return res
	}
	for i := uint64(0); i < n; i++ {
		k := tc.Const(64, i)
		res = tc.And(res, tc.Eq(p.readElem(a.Obj, tc.BvAdd(a.Off, k)), p.readElem(b.Obj, tc.BvAdd(b.Off, k))))
		if res.IsFalse() {
			break
		}
	}
	return res
}

func (p *Path) valueEq(x, y Value) *Term {
	tc := p.tc
	switch xv := x.(type) {
	case *Term:
		return tc.Eq(xv, y.(*Term))
	case FloatV:
		return tc.Bool(xv.F == y.(FloatV).F)
	case *PtrV:
		yv, ok := y.(*PtrV)
		if !ok {
			return tc.False
		}
		if xv.Obj != yv.Obj {
			return tc.False
		}
		if xv.Obj == nil {
			return tc.True
		}
		if xv.Idx != nil && yv.Idx != nil {
			return tc.Eq(xv.Idx, yv.Idx)
		}
		return tc.True
	case *SliceV:
		yv := y.(*SliceV)
		if xv.IsString || yv.IsString {
			return p.stringEq(xv, yv)
		}
		// slices compare only against nil
		if yv.Obj == nil {
			return tc.Bool(xv.Obj == nil)
		}
		if xv.Obj == nil {
			return tc.Bool(yv.Obj == nil)
		}
		p.unsupported("slice == slice")
	case *StructV:
		yv := y.(*StructV)
		res := tc.True
		for i := range xv.Fields {
			res = tc.And(res, p.valueEq(xv.Fields[i], yv.Fields[i]))
			if res.IsFalse() {
				break
			}
		}
		return res
	case *ArrayV:
		yv := y.(*ArrayV)
		res := tc.True
		for i := range xv.Elems {
			res = tc.And(res, p.valueEq(xv.Elems[i], yv.Elems[i]))
			if res.IsFalse() {
				break
			}
		}
		return res
	case *IfaceV:
		yv, ok := y.(*IfaceV)
		if !ok {
			p.unsupported("iface == %T", y)
		}
		if xv.Typ == nil || yv.Typ == nil {
			return tc.Bool(xv.Typ == nil && yv.Typ == nil)
		}
		if !types.Identical(xv.Typ, yv.Typ) {
			return tc.False
		}
		if !types.Comparable(xv.Typ) {
			p.obligation(tc.False, "panic", "uncomparable", "comparing uncomparable type "+xv.Typ.String())
		}
		return p.valueEq(xv.Val, yv.Val)
	case *FuncV:
		yv := y.(*FuncV)
		xn := xv.Fn == nil && xv.Builtin == ""
		yn := yv.Fn == nil && yv.Builtin == ""
		if xn || yn {
			return tc.Bool(xn && yn)
		}
		p.unsupported("func == func")
	case *MapV:
		yv := y.(*MapV)
		if xv.M == nil || yv.M == nil {
			return tc.Bool(xv.M == nil && yv.M == nil)
		}
		return tc.Bool(xv.M == yv.M)
	case *ChanV:
		yv, _ := y.(*ChanV)
		return tc.Bool(xv == yv)
	case nil:
		return tc.Bool(y == nil)
	}
	p.unsupported("equality on %T", x)
	return nil
}

// ---------- conversions ----------

func (p *Path) convert(x Value, from, to types.Type) Value {
	tc := p.tc
	fu, tu := from.Underlying(), to.Underlying()
	switch xv := x.(type) {
	case *Term:
		if xv.S.K == SBool {
			return xv
		}
		if isIntegerT(to) {
			w := typeWidth(to)
			if xv.S.W >= w {
				return tc.Extract(xv, w-1, 0)
			}
			if isSigned(from) {
				return tc.Sext(xv, w)
			}
			return tc.Zext(xv, w)
		}
		if isFloatT(to) {
			w := 64
			if tu.(*types.Basic).Kind() == types.Float32 {
				w = 32
			}
			if !xv.IsConst() {
				p.note("integer->float conversion of a symbolic value is over-approximated (result unconstrained)")
				return FloatV{0, -1}
			}
			var f float64
			if isSigned(from) {
				f = float64(xv.SignedVal())
			} else {
				f = float64(xv.Val)
			}
			if w == 32 {
				f = float64(float32(f))
			}
			return FloatV{f, w}
		}
		if isStringT(to) {
			if xv.IsConst() {
				return p.constString(string(rune(xv.SignedVal())))
			}
			p.unsupported("string(symbolic rune)")
		}
		if b, ok := tu.(*types.Basic); ok && b.Kind() == types.UnsafePointer {
			p.unsupported("conversion to unsafe.Pointer")
		}
	case FloatV:
		if isFloatT(to) {
			if xv.W == -1 {
				return xv
			}
			if tu.(*types.Basic).Kind() == types.Float32 {
				return FloatV{float64(float32(xv.F)), 32}
			}
			return FloatV{xv.F, 64}
		}
		if isIntegerT(to) {
			w := typeWidth(to)
			if xv.W == -1 {
				t := p.fresh("f2i", BV(w))
				return t
			}
			if isSigned(to) {
				return tc.Const(w, uint64(int64(math.Trunc(xv.F))))
			}
			return tc.Const(w, uint64(math.Trunc(xv.F)))
		}
	case *SliceV:
		_, toSlice := tu.(*types.Slice)
		_, fromSlice := fu.(*types.Slice)
		switch {
		case isStringT(from) && isStringT(to):
			return xv
		case fromSlice && toSlice:
			return xv
		case isStringT(from) && toSlice:
			// []byte(s) – copy
			elem := tu.(*types.Slice).Elem()
			if typeWidth(elem) != 8 {
				p.unsupported("[]rune(string)")
			}
			o := p.newByteStore(elem, 8, xv.Len, false, "bytes")
			if xv.Obj != nil {
				p.copyElems(o, tc.Const(64, 0), xv.Obj, xv.Off, xv.Len)
			}
			return &SliceV{Obj: o, Off: tc.Const(64, 0), Len: xv.Len, Cap: xv.Len}
		case fromSlice && isStringT(to):
			if s, ok := p.concreteString(xv); ok {
				return p.constString(s)
			}
			o := p.newByteStore(types.Typ[types.Uint8], 8, xv.Len, false, "string")
			if xv.Obj != nil {
				p.copyElems(o, tc.Const(64, 0), xv.Obj, xv.Off, xv.Len)
			}
			o.ReadOnly = false
			return &SliceV{Obj: o, Off: tc.Const(64, 0), Len: xv.Len, Cap: xv.Len, IsString: true}
		}
	case *PtrV:
		if _, ok := tu.(*types.Pointer); ok {
			return xv
		}
		if b, ok := tu.(*types.Basic); ok && b.Kind() == types.UnsafePointer {
			return xv
		}
	}
	p.unsupported("conversion %s -> %s (%T)", from, to, x)
	return nil
}

// ---------- type assertions ----------

func (p *Path) implements(dyn types.Type, iface *types.Interface) bool {
	return types.Implements(dyn, iface)
}

func (p *Path) typeAssert(fr *Frame, in *ssa.TypeAssert) Value {
	x := p.get(fr, in.X)
	iv, ok := x.(*IfaceV)
	if !ok {
		p.unsupported("type assert on %T", x)
	}
	var okb bool
	var res Value
	if it, isIface := in.AssertedType.Underlying().(*types.Interface); isIface {
		okb = iv.Typ != nil && p.implements(iv.Typ, it)
		if okb {
			res = iv
		} else {
			res = &IfaceV{}
		}
	} else {
		okb = iv.Typ != nil && types.Identical(iv.Typ, in.AssertedType)
		if okb {
			res = iv.Val
		} else if in.CommaOk {
			res = p.zero(in.AssertedType)
		}
	}
	if in.CommaOk {
		return TupleV{res, p.tc.Bool(okb)}
	}
	if !okb {
		what := "nil"
		if iv.Typ != nil {
			what = iv.Typ.String()
		}
		p.obligation(p.tc.False, "panic", "type-assert", fmt.Sprintf("interface conversion: %s is not %s", what, in.AssertedType))
		p.end("gopanic", "type assertion failed")
	}
	return res
}

// ---------- calls ----------

func (p *Path) prepareCall(fr *Frame, c *ssa.CallCommon) (Value, []Value) {
	args := make([]Value, 0, len(c.Args)+1)
	if c.IsInvoke() {
		rv := p.get(fr, c.Value)
		iv, ok := rv.(*IfaceV)
		if !ok {
			p.unsupported("invoke on %T", rv)
		}
		if iv.Typ == nil {
			p.obligation(p.tc.False, "panic", "nil-deref", "method call on nil interface ("+c.Method.Name()+")")
			p.end("gopanic", "invoke on nil interface")
		}
		fn := p.eng.lookupMethod(iv.Typ, c.Method)
		if fn == nil {
			p.unsupported("method %s not found on %s", c.Method.Name(), iv.Typ)
		}
		args = append(args, iv.Val)
		for _, a := range c.Args {
			args = append(args, p.get(fr, a))
		}
		return p.funcValue(fn), args
	}
	for _, a := range c.Args {
		args = append(args, p.get(fr, a))
	}
	return p.get(fr, c.Value), args
}

func (p *Path) invoke(fnv Value, args []Value, site ssa.Instruction) Value {
	fv, ok := fnv.(*FuncV)
	if !ok {
		p.unsupported("call of %T", fnv)
	}
	if fv.Builtin != "" {
		return p.builtin(fv.Builtin, args, site)
	}
	if fv.Fn == nil {
		p.obligation(p.tc.False, "panic", "nil-deref", "call of nil function")
		p.end("gopanic", "call of nil func")
	}
	return p.callFunction(fv.Fn, args, fv.Bindings, site)
}

func (p *Path) callFunction(fn *ssa.Function, args, bindings []Value, site ssa.Instruction) Value {
	name := fn.String()
	if p.lenient == 0 {
		if rep, ok := p.eng.stubs[name]; ok && !p.inStub(rep) {
			if p.st.Funcs != nil {
				p.st.Funcs["stub:"+name+" -> "+rep.String()]++
			}
			return p.runFunction(rep, args, nil, site)
		}
	}
	if h, ok := intrinsics[name]; ok {
		return h(p, fn, args)
	}
	if fn.Pkg != nil {
		if h, ok := pkgIntrinsics[fn.Pkg.Pkg.Path()]; ok {
			if r, handled := h(p, fn, args); handled {
				return r
			}
		}
	}
	if fn.Origin() != nil {
		if h, ok := intrinsics[fn.Origin().String()]; ok {
			return h(p, fn, args)
		}
	}
	if p.eng.isNoop(name) || matchNoop(p.h.Noop, name) {
		return p.zeroResults(fn.Signature)
	}
	if fn.Name() == "init" && fn.Pkg != nil && fn.Signature.Recv() == nil && fn.Parent() == nil && len(fn.Params) == 0 && strings.HasSuffix(name, ".init") {
		// package initialiser reached from another init: packages are
		// initialised lazily, when one of their globals is first touched
		return nil
	}
	if fn.Blocks == nil {
		p.unsupported("call of function without body: %s", name)
	}
	return p.runFunction(fn, args, bindings, site)
}

func (p *Path) inStub(rep *ssa.Function) bool {
	for _, f := range p.stack {
		if f.fn == rep {
			return true
		}
	}
	return false
}

func (p *Path) zeroResults(sig *types.Signature) Value {
	switch sig.Results().Len() {
	case 0:
		return nil
	case 1:
		return p.zero(sig.Results().At(0).Type())
	}
	return p.zero(sig.Results())
}
