package main

import (
	"golang.org/x/tools/go/ssa"
	"crypto/sha256"
	"encoding/hex"
	"encoding/json"
	"flag"
	"fmt"
	"os"
	"os/exec"
	"path/filepath"
	"runtime"
	"runtime/pprof"
	"sort"
	"strconv"
	"strings"
	"time"
)

var queryTimeout int
var debugMaxPaths int

type KnownFinding struct {
	Property string `json:"property"`
	Harness  string `json:"harness,omitempty"`
	Kind     string `json:"kind"`
	Tag      string `json:"tag"`
	Site     string `json:"site"`
	Status   string `json:"status"` // known | fixed
	Commit   string `json:"commit,omitempty"`
	What     string `json:"what"`
}

func loadKnown() []KnownFinding {
	b, err := os.ReadFile(filepath.Join(verifDir(), "known_findings.json"))
	if err != nil {
		return nil
	}
	var k []KnownFinding
	if err := json.Unmarshal(b, &k); err != nil {
		fmt.Fprintln(os.Stderr, "known_findings.json:", err)
	}
	return k
}

func main() {
	// /repo needs go >= 1.26.3: make go1.26.8 the `go` that go/packages and replay use.
	os.Setenv("PATH", "/opt/veriftools/go1.26.8/bin:"+os.Getenv("PATH"))
	os.Setenv("GOFLAGS", "-mod=mod")
	os.Setenv("GOPROXY", "off")
	os.Setenv("GOTOOLCHAIN", "local")
	if len(os.Args) < 3 {
		fmt.Fprintln(os.Stderr, "usage: gosmt check <property> [--tier quick|thorough] [--only harness] [-v]")
		os.Exit(2)
	}
	cmd := os.Args[1]
	id := os.Args[2]
	fs := flag.NewFlagSet("gosmt", flag.ExitOnError)
	tier := fs.String("tier", "quick", "quick|thorough")
	only := fs.String("only", "", "run only this harness")
	verbose := fs.Bool("v", false, "verbose")
	workers := fs.Int("j", runtime.NumCPU(), "workers")
	noMerge := fs.Bool("nomerge", false, "disable ite merging")
	solverLog := fs.String("smtlog", "", "write worker-0 SMT-LIB traffic to file")
	noReplay := fs.Bool("noreplay", false, "skip native replay")
	replayPath := fs.String("replay", "", "replay a recorded violation file against the real code")
	maxPaths := fs.Int("maxpaths", 0, "stop each harness after this many paths (debugging)")
	cpuprof := fs.String("cpuprofile", "", "write CPU profile")
	qt := fs.Int("qt", 0, "per-query solver timeout in ms (default 60000 quick / 300000 thorough)")
	fs.Parse(os.Args[3:])
	if t := os.Getenv("VERIF_TIER"); t != "" {
		*tier = t
	}
	seed := 0
	if s := os.Getenv("VERIF_SEED"); s != "" {
		seed, _ = strconv.Atoi(s)
	}
	switch cmd {
	case "check":
	default:
		fmt.Fprintln(os.Stderr, "unknown command", cmd)
		os.Exit(2)
	}
	queryTimeout = *qt
	if *cpuprof != "" {
		f, _ := os.Create(*cpuprof)
		pprof.StartCPUProfile(f)
		defer pprof.StopCPUProfile()
	}
	debugMaxPaths = *maxPaths
	code := runCheck(id, *tier, *only, seed, *workers, *verbose, *noMerge, *solverLog, *noReplay, *replayPath)
	pprof.StopCPUProfile()
	os.Exit(code)
}

// partialRun: only one harness of the check was asked for (--only): its evidence is not the check's
var partialRun bool

func runCheck(id, tier, only string, seed, workers int, verbose, noMerge bool, solverLog string, noReplay bool, replayPath string) int {
	partialRun = only != ""
	start := time.Now()
	cfg, err := loadCfg(id)
	if err != nil {
		fmt.Println("INCONCLUSIVE config:", err)
		return 3
	}
	if replayPath != "" {
		b, err := os.ReadFile(replayPath)
		if err != nil {
			fmt.Println("INCONCLUSIVE replay file:", err)
			return 3
		}
		var v Violation
		if err := json.Unmarshal(b, &v); err != nil {
			fmt.Println("INCONCLUSIVE replay file:", err)
			return 3
		}
		var h *HarnessCfg
		for _, hh := range cfg.Harnesses {
			if hh.Name == v.Harness {
				h = hh
			}
		}
		if h == nil {
			fmt.Println("INCONCLUSIVE replay: harness not found", v.Harness)
			return 3
		}
		ok, note := nativeReplay(cfg, h, &v)
		fmt.Println("replay:", ok, note)
		if ok {
			fmt.Printf("VIOLATION property=%s replay=%s\n", id, replayPath)
			return 1
		}
		return 0
	}
	loadStart := time.Now()
	eng, err := NewEngine(cfg)
	if err != nil {
		fmt.Println("INCONCLUSIVE load:", err)
		writeEvidence(cfg, tier, seed, nil, nil, []string{"load failed: " + err.Error()}, time.Since(start), 0, 0, 0)
		return 3
	}
	if tier == "thorough" {
		eng.timeoutMs = 300000
	}
	if queryTimeout > 0 {
		eng.timeoutMs = queryTimeout
	}
	eng.noMerge = noMerge
	eng.verbose = verbose
	eng.solverLog = solverLog
	loadDur := time.Since(loadStart)
	if verbose {
		fmt.Printf("loaded in %.1fs\n", loadDur.Seconds())
	}
	known := loadKnown()
	var results []*HarnessResult
	var inconcl []string
	exit := 0
	nReplayed := 0
	nWitness := 0
	var reported []string
	for _, h := range cfg.Harnesses {
		if only != "" && h.Name != only {
			continue
		}
		if len(h.Tiers) > 0 && !contains(h.Tiers, tier) {
			continue
		}
		h.NoPanic = !h.AllowPanic
		if h.Unwind == 0 {
			h.Unwind = 64
		}
		h.Params = map[string]int{}
		for k, v := range h.TierParams["quick"] {
			h.Params[k] = v
		}
		for k, v := range h.TierParams[tier] {
			h.Params[k] = v
		}
		if u, ok := h.Params["unwind"]; ok {
			h.Unwind = u
		}
		if err := eng.setStubs(h); err != nil {
			inconcl = append(inconcl, h.Name+": "+err.Error())
			continue
		}
		if debugMaxPaths > 0 {
			h.MaxPaths = debugMaxPaths
		}
		r := eng.explore(h, workers)
		results = append(results, r)
		if verbose || true {
			fmt.Printf("harness %-28s paths=%d ends=%v obligations=%d discharged=%d queries=%d(fallback %d) solver=%.1fs wall=%.1fs merges=%d simpq=%d ivdec=%d ivdis=%d instrs=%d\n",
				h.Name, r.Paths, r.EndKinds, r.Stats.Obligations, r.Stats.Discharged, r.Solver.Queries, r.Solver.Fallbacks, r.Solver.Time.Seconds(), r.Wall.Seconds(), r.Stats.Merges, r.Stats.SimpQueries, r.Stats.IntervalDecided, r.Stats.IntervalDischarged, r.Stats.Instrs)
		}
		for _, s := range r.Inconcl {
			inconcl = append(inconcl, h.Name+": "+s)
		}
		seenWitness := map[string]bool{}
		for _, v := range r.Violations {
			if v.Kind == "assert" && contains(h.Witness, v.Tag) {
				// translator validation: the solver's model of a deliberately falsifiable
				// assertion must reproduce when the real build runs on the same inputs
				seenWitness[v.Tag] = true
				ok, note := false, "replay disabled"
				if !noReplay {
					ok, note = nativeReplay(cfg, h, v)
				}
				v.Replayed, v.ReplayNote = ok, "witness: "+note
				if ok {
					nWitness++
					if verbose {
						fmt.Printf("witness %s/%s reproduced natively\n", h.Name, v.Tag)
					}
				} else if !noReplay {
					path := saveViolation(id, v)
					inconcl = append(inconcl, fmt.Sprintf("%s: translator-validation: witness %s did not reproduce against the real build (%s) file=%s", h.Name, v.Tag, note, path))
				}
				continue
			}
			// replay against the real code
			mode := h.Replay
			if mode == "" {
				mode = "native"
			}
			if noReplay {
				mode = "none"
			}
			// replay modes may be chained ("native|symbolic"): the first that reproduces wins
			for _, md := range strings.Split(mode, "|") {
				var ok bool
				var note string
				switch {
				case md == "native":
					ok, note = nativeReplay(cfg, h, v)
				case md == "symbolic":
					ok, note = eng.revalidate(h, v)
				case strings.HasPrefix(md, "driver:"):
					ok, note = driverReplay(cfg, h, v, strings.TrimPrefix(md, "driver:"))
				default:
					ok, note = false, "no replay configured"
				}
				if v.ReplayNote != "" {
					note = v.ReplayNote + " || " + md + ": " + note
				} else {
					note = md + ": " + note
				}
				v.Replayed, v.ReplayNote = ok, note
				if ok {
					break
				}
			}
			path := saveViolation(id, v)
			if !v.Replayed && mode != "none" {
				inconcl = append(inconcl, fmt.Sprintf("%s: replay-mismatch for %s/%s at %s (%s) file=%s", h.Name, v.Kind, v.Tag, v.Site, v.ReplayNote, path))
				continue
			}
			if v.Replayed {
				nReplayed++
			}
			kf := matchKnown(known, id, v)
			if kf != nil && kf.Status == "known" {
				line := fmt.Sprintf("KNOWN-FINDING: property=%s %s [%s %s/%s at %s]", id, kf.What, h.Name, v.Kind, v.Tag, v.Site)
				if !contains(reported, line) {
					reported = append(reported, line)
					fmt.Println(line)
				}
				continue
			}
			fmt.Printf("violation: harness=%s kind=%s tag=%s site=%s msg=%q replayed=%v (%s)\n", h.Name, v.Kind, v.Tag, v.Site, v.Msg, v.Replayed, v.ReplayNote)
			fmt.Printf("VIOLATION property=%s replay=%s\n", id, path)
			exit = 1
		}
		for _, w := range h.Witness {
			if !seenWitness[w] {
				inconcl = append(inconcl, fmt.Sprintf("%s: translator-validation: witness %s was not produced", h.Name, w))
			}
		}
	}
	nviol := 0
	for i, r := range results {
		_ = i
		for _, v := range r.Violations {
			if !strings.HasPrefix(v.ReplayNote, "witness: ") {
				nviol++
			}
		}
	}
	writeEvidence(cfg, tier, seed, eng, results, inconcl, time.Since(start), nviol, nReplayed, nWitness)
	if exit == 1 {
		if verbose {
			for _, s := range inconcl {
				fmt.Println("INCONCLUSIVE", s)
			}
		}
		return 1
	}
	if len(inconcl) > 0 {
		for _, s := range inconcl {
			fmt.Println("INCONCLUSIVE", s)
		}
		return 3
	}
	fmt.Printf("OK property=%s tier=%s harnesses=%d wall=%.1fs\n", id, tier, len(results), time.Since(start).Seconds())
	return 0
}

func contains(l []string, s string) bool {
	for _, x := range l {
		if x == s {
			return true
		}
	}
	return false
}

func matchKnown(known []KnownFinding, id string, v *Violation) *KnownFinding {
	for i := range known {
		k := &known[i]
		if k.Property != id || k.Kind != v.Kind || k.Tag != v.Tag || k.Site != v.Site {
			continue
		}
		if k.Harness != "" && k.Harness != v.Harness {
			continue
		}
		return k
	}
	return nil
}

func saveViolation(id string, v *Violation) string {
	dir := filepath.Join(verifDir(), "replays")
	os.MkdirAll(dir, 0o755)
	b, _ := json.MarshalIndent(v, "", " ")
	h := sha256.Sum256([]byte(v.Harness + v.Kind + v.Tag + v.Site))
	path := filepath.Join(dir, fmt.Sprintf("%s-%s.json", id, hex.EncodeToString(h[:6])))
	os.WriteFile(path, b, 0o644)
	return path
}

// ---------- native replay ----------

func harnessPkgAndFunc(h *HarnessCfg) (string, string) {
	dot := strings.LastIndex(h.Func, ".")
	return h.Func[:dot], h.Func[dot+1:]
}

func goEnv() []string {
	env := os.Environ()
	env = append(env, "GOFLAGS=-mod=mod", "GOPROXY=off", "GOTOOLCHAIN=local")
	return env
}

// writeOverlayJSON materialises the overlay for `go test -overlay`.
func writeOverlayJSON(cfg *CheckCfg, extra map[string]string, workDir string) (string, error) {
	rep := map[string]string{}
	vfdir := filepath.Join(verifDir(), "harness", "zzvf")
	ents, _ := os.ReadDir(vfdir)
	for _, e := range ents {
		if strings.HasSuffix(e.Name(), ".go") {
			rep[filepath.Join(repoDir, "zzvf", e.Name())] = filepath.Join(vfdir, e.Name())
		}
	}
	for rel, src := range cfg.Overlay {
		rep[filepath.Join(repoDir, rel)] = filepath.Join(cfg.dir, src)
	}
	for rel, src := range extra {
		rep[filepath.Join(repoDir, rel)] = src
	}
	b, _ := json.Marshal(map[string]any{"Replace": rep})
	path := filepath.Join(workDir, "overlay.json")
	return path, os.WriteFile(path, b, 0o644)
}

func nativeReplay(cfg *CheckCfg, h *HarnessCfg, v *Violation) (bool, string) {
	work := filepath.Join(verifDir(), ".work", fmt.Sprintf("replay-%d-%d", os.Getpid(), time.Now().UnixNano()))
	os.MkdirAll(work, 0o755)
	defer os.RemoveAll(work)
	pkgPath, fn := harnessPkgAndFunc(h)
	rel := strings.TrimPrefix(strings.TrimPrefix(pkgPath, "github.com/mycoria/mycoria"), "/")
	pkgName := filepath.Base(pkgPath)
	if rel == "" {
		pkgName = "mycoria"
	}
	test := fmt.Sprintf(`//go:build verif

package %s

import (
	"testing"

	vf "github.com/mycoria/mycoria/zzvf"
)

func TestVfReplay(t *testing.T) { vf.RunReplay(t, %s) }
`, pkgName, fn)
	testFile := filepath.Join(work, "zz_vf_replay_test.go")
	os.WriteFile(testFile, []byte(test), 0o644)
	vb, _ := json.Marshal(v)
	vfile := filepath.Join(work, "violation.json")
	os.WriteFile(vfile, vb, 0o644)
	ov, err := writeOverlayJSON(cfg, map[string]string{filepath.Join(rel, "zz_vf_replay_test.go"): testFile}, work)
	if err != nil {
		return false, err.Error()
	}
	cmd := exec.Command("go", "test", "-tags", "verif", "-vet=off", "-count=1", "-overlay", ov, "-run", "^TestVfReplay$", "-v", "./"+rel)
	cmd.Dir = repoDir
	cmd.Env = append(goEnv(), "VF_REPLAY="+vfile)
	out, _ := runWithTimeout(cmd, 10*time.Minute)
	for _, l := range strings.Split(out, "\n") {
		if strings.Contains(l, "VF-REPLAY:") {
			l = strings.TrimSpace(l[strings.Index(l, "VF-REPLAY:")+10:])
			if strings.HasPrefix(l, "reproduced") {
				return true, l
			}
			return false, l
		}
	}
	tail := out
	if len(tail) > 600 {
		tail = tail[len(tail)-600:]
	}
	return false, "no VF-REPLAY line; output tail: " + tail
}

func driverReplay(cfg *CheckCfg, h *HarnessCfg, v *Violation, spec string) (bool, string) {
	// spec: <relpkg>:<TestName>[:<file in harness dir>]; the driver test prints
	// "VF-DRIVER: reproduced <tag>" for each violation class it reproduces.
	parts := strings.Split(spec, ":")
	if len(parts) < 2 {
		return false, "bad driver spec"
	}
	work := filepath.Join(verifDir(), ".work", fmt.Sprintf("driver-%d-%d", os.Getpid(), time.Now().UnixNano()))
	os.MkdirAll(work, 0o755)
	defer os.RemoveAll(work)
	extra := map[string]string{}
	if len(parts) >= 3 {
		extra[filepath.Join(parts[0], "zz_vf_driver_test.go")] = filepath.Join(cfg.dir, parts[2])
	}
	vb, _ := json.Marshal(v)
	vfile := filepath.Join(work, "violation.json")
	os.WriteFile(vfile, vb, 0o644)
	ov, err := writeOverlayJSON(cfg, extra, work)
	if err != nil {
		return false, err.Error()
	}
	cmd := exec.Command("go", "test", "-tags", "verif", "-vet=off", "-count=1", "-overlay", ov, "-run", "^"+parts[1]+"$", "-v", "./"+parts[0])
	cmd.Dir = repoDir
	cmd.Env = append(goEnv(), "VF_REPLAY="+vfile, "VF_TAG="+v.Tag, "VF_KIND="+v.Kind, "VF_SITE="+v.Site)
	out, _ := runWithTimeout(cmd, 10*time.Minute)
	want := "VF-DRIVER: reproduced " + v.Tag
	for _, l := range strings.Split(out, "\n") {
		if strings.Contains(l, want) {
			return true, strings.TrimSpace(l)
		}
	}
	tail := out
	if len(tail) > 600 {
		tail = tail[len(tail)-600:]
	}
	return false, "driver did not reproduce; output tail: " + tail
}

func runWithTimeout(cmd *exec.Cmd, d time.Duration) (string, error) {
	type res struct {
		out []byte
		err error
	}
	ch := make(chan res, 1)
	go func() {
		o, e := cmd.CombinedOutput()
		ch <- res{o, e}
	}()
	select {
	case r := <-ch:
		return string(r.out), r.err
	case <-time.After(d):
		if cmd.Process != nil {
			cmd.Process.Kill()
		}
		return "timeout", fmt.Errorf("timeout")
	}
}

// ---------- evidence ----------

func writeEvidence(cfg *CheckCfg, tier string, seed int, eng *Engine, results []*HarnessResult, inconcl []string, wall time.Duration, nviol, nReplayed, nWitness int) {
	ev := Evidence{PropertyID: cfg.Property, Tier: tier, Seed: seed, Level: "model_checking", Coverage: map[string]any{}, WallS: wall.Seconds(), Violations: nviol}
	states, trans, obl, dis, queries := 0, int64(0), 0, 0, 0
	var solverT time.Duration
	var samples []any
	funcs := map[string]bool{}
	stubs := map[string]bool{}
	assum := map[string]bool{}
	var harnesses []any
	for _, r := range results {
		states += r.Paths
		trans += r.Stats.Instrs
		obl += r.Stats.Obligations
		dis += r.Stats.Discharged
		queries += r.Solver.Queries
		solverT += r.Solver.Time
		for k := range r.Stats.Funcs {
			if strings.HasPrefix(k, "stub:") {
				stubs[k[5:]] = true
			} else if strings.Contains(k, "mycoria") && !strings.Contains(k, "zzvf") {
				funcs[k] = true
			}
		}
		for k := range r.Stats.Assumptions {
			assum[k] = true
		}
		for _, s := range r.Stats.Samples {
			if len(samples) < 6 {
				samples = append(samples, map[string]any{"harness": r.Cfg.Name, "obligation": s})
			}
		}
		for _, s := range r.PathSample {
			if len(samples) < 9 {
				samples = append(samples, map[string]any{"harness": r.Cfg.Name, "path": s})
			}
		}
		var reached []string
		for k := range r.Stats.Reached {
			reached = append(reached, k)
		}
		sort.Strings(reached)
		hv := map[string]any{"name": r.Cfg.Name, "entry": r.Cfg.Func, "doc": r.Cfg.Doc, "paths": r.Paths, "path_ends": r.EndKinds,
			"unwind": r.Cfg.Unwind, "params": r.Cfg.Params, "obligations": r.Stats.Obligations, "discharged": r.Stats.Discharged,
			"solver_queries": r.Solver.Queries, "solver_sat": r.Solver.Sat, "solver_unsat": r.Solver.Unsat, "solver_unknown": r.Solver.Unknown,
			"solver_time_s": r.Solver.Time.Seconds(), "oneshot_fallbacks": r.Solver.Fallbacks, "max_query_s": r.Solver.MaxQuery.Seconds(), "ite_merges": r.Stats.Merges, "panic_obligations_discharged_by_interval_arithmetic": r.Stats.IntervalDischarged, "pruning_queries": r.Stats.SimpQueries,
			"reached": reached, "wall_s": r.Wall.Seconds()}
		var vs []any
		for _, v := range r.Violations {
			vs = append(vs, map[string]any{"kind": v.Kind, "tag": v.Tag, "site": v.Site, "msg": v.Msg, "replayed": v.Replayed, "replay_note": v.ReplayNote})
		}
		if vs != nil {
			hv["violations"] = vs
		}
		harnesses = append(harnesses, hv)
	}
	if len(samples) == 0 {
		samples = append(samples, "no obligation discharged")
	}
	if states == 0 {
		states = 1
	}
	if trans == 0 {
		trans = 1
	}
	ev.Coverage["states"] = states
	ev.Coverage["transitions"] = trans
	ev.Coverage["traces_validated_against_impl"] = nReplayed + nWitness
	ev.Coverage["translator_witnesses_validated"] = nWitness
	ev.Coverage["samples"] = samples
	ev.Coverage["obligations"] = obl
	ev.Coverage["discharged"] = dis
	ev.Coverage["solver_queries"] = queries
	ev.Coverage["solver_time_s"] = solverT.Seconds()
	ev.Coverage["solver"] = "z3 4.8.12 (-in, incremental push/pop, 250 ms budget) with one-shot non-incremental fallback (z3-new 5.1.0, then z3 4.8.12) under the full per-query timeout"
	cb, ct := writeBlockCoverage(cfg, eng, results)
	ev.Coverage["code_blocks_executed"] = cb
	ev.Coverage["code_blocks_in_encoded_functions"] = ct
	ev.Coverage["functions_encoded"] = sortedSet(funcs)
	ev.Coverage["models_substituted"] = sortedSet(stubs)
	ev.Coverage["harnesses"] = harnesses
	ev.Coverage["inconclusive"] = inconcl
	ev.Coverage["outside_claim"] = cfg.Outside
	ev.Coverage["explanation"] = "states = symbolic paths explored to completion; transitions = SSA instructions interpreted; every obligation is an SMT query (PC and not(property)) answered unsat, over all values inside the stated bounds; encoding regenerated from /repo's working tree via go/ssa on this run"
	ev.Assumptions = append(ev.Assumptions, cfg.Assume...)
	ev.Assumptions = append(ev.Assumptions, sortedSet(assum)...)
	if ev.Assumptions == nil {
		ev.Assumptions = []string{}
	}
	sub := "evidence"
	if !strings.HasPrefix(cfg.Property, "C") {
		sub = "selftest" // engine self-tests are not properties
	}
	if os.Getenv("VERIF_REPO") != "" {
		sub = filepath.Join(".work", "evidence-other-tree") // runs against another tree (seeded changes) never touch the evidence of /repo
	} else if partialRun {
		sub = filepath.Join(".work", "evidence-partial") // a single harness (--only) is not the check: keep the check's evidence
	}
	os.MkdirAll(filepath.Join(verifDir(), sub), 0o755)
	b, _ := json.MarshalIndent(ev, "", " ")
	os.WriteFile(filepath.Join(verifDir(), sub, cfg.Property+".json"), b, 0o644)
}

func sortedSet(m map[string]bool) []string {
	out := []string{}
	for k := range m {
		out = append(out, k)
	}
	sort.Strings(out)
	return out
}

// writeBlockCoverage writes coverage/<id>.txt: for every repository function
// the symbolic executor entered, which SSA basic blocks no explored path
// executed (with the source position of their first instruction). It is a
// vacuity aid: code the harnesses never reach is not decided by the check.
func writeBlockCoverage(cfg *CheckCfg, eng *Engine, results []*HarnessResult) (covered, total int) {
	if eng == nil {
		return 0, 0
	}
	union := map[*ssa.Function]map[int]bool{}
	for _, r := range results {
		for fn, bm := range r.Stats.Blocks {
			u := union[fn]
			if u == nil {
				u = map[int]bool{}
				union[fn] = u
			}
			for i := range bm {
				u[i] = true
			}
		}
	}
	type row struct {
		name  string
		lines []string
		cov   int
		tot   int
	}
	var rows []row
	for fn, u := range union {
		if fn.Pkg == nil || !strings.HasPrefix(fn.Pkg.Pkg.Path(), "github.com/mycoria/mycoria") || strings.HasSuffix(fn.Pkg.Pkg.Path(), "/zzvf") {
			continue
		}
		pos := fn.Prog.Fset.Position(fn.Pos())
		if strings.Contains(pos.Filename, "zz_vf") || strings.Contains(pos.Filename, "/harness/") || !pos.IsValid() {
			continue
		}
		rw := row{name: fn.String(), tot: len(fn.Blocks)}
		for _, b := range fn.Blocks {
			if u[b.Index] {
				rw.cov++
				continue
			}
			where := "?"
			for _, in := range b.Instrs {
				if p := in.Pos(); p.IsValid() {
					pp := fn.Prog.Fset.Position(p)
					where = fmt.Sprintf("%s:%d", filepath.Base(pp.Filename), pp.Line)
					break
				}
			}
			rw.lines = append(rw.lines, fmt.Sprintf("    block %d (%s) at %s", b.Index, b.Comment, where))
		}
		covered += rw.cov
		total += rw.tot
		rows = append(rows, rw)
	}
	sort.Slice(rows, func(i, j int) bool { return rows[i].name < rows[j].name })
	var sb strings.Builder
	fmt.Fprintf(&sb, "# %s: SSA basic blocks executed by at least one explored path, per repository function entered (%d of %d)\n", cfg.Property, covered, total)
	for _, rw := range rows {
		fmt.Fprintf(&sb, "%s  %d/%d\n", rw.name, rw.cov, rw.tot)
		for _, l := range rw.lines {
			sb.WriteString(l + "\n")
		}
	}
	dir := filepath.Join(verifDir(), "coverage")
	if os.Getenv("VERIF_REPO") != "" {
		dir = filepath.Join(verifDir(), ".work", "coverage-other-tree")
	}
	os.MkdirAll(dir, 0o755)
	os.WriteFile(filepath.Join(dir, cfg.Property+".txt"), []byte(sb.String()), 0o644)
	return covered, total
}
