package main

import (
	"go/types"
	"strconv"
	"strings"
)

// traceKey renders the decisions taken so far (cached incrementally).
func (p *Path) traceKey() string {
	if p.traceKeyN != len(p.trace) {
		var sb strings.Builder
		sb.WriteString(p.h.Name)
		for _, d := range p.trace {
			sb.WriteByte(byte('0' + d%10))
			if d >= 10 {
				sb.WriteString("x" + strconv.Itoa(d))
			}
		}
		p.traceKeyS = sb.String()
		p.traceKeyN = len(p.trace)
	}
	return p.traceKeyS
}

// ---------- object construction ----------

func (p *Path) newObj(t types.Type, name string) *Object {
	p.objN++
	return &Object{ID: p.objN, Typ: t, Name: name}
}

// newObject allocates a zero-initialised cell tree of type t.
func (p *Path) newObject(t types.Type, name string) *Object {
	o := p.newObj(t, name)
	switch u := t.Underlying().(type) {
	case *types.Struct:
		o.Fields = make([]*Object, u.NumFields())
		for i := 0; i < u.NumFields(); i++ {
			o.Fields[i] = p.newObject(u.Field(i).Type(), name+"."+u.Field(i).Name())
		}
	case *types.Array:
		if w, ok := byteStoreElem(u.Elem()); ok {
			o.IsBytes = true
			o.ElemW = w
			o.Base = p.tc.ConstArr(w, p.tc.Const(w, 0))
			o.Cap = p.tc.Const(64, uint64(u.Len()))
		} else {
			n := int(u.Len())
			o.Elems = make([]*Object, n)
			for i := 0; i < n; i++ {
				o.Elems[i] = p.newObject(u.Elem(), name+"[]")
			}
		}
	default:
		o.Val = p.zero(t)
	}
	return o
}

// newByteStore allocates a fresh backing array of n elements of width w.
func (p *Path) newByteStore(elem types.Type, w int, n *Term, symbolic bool, name string) *Object {
	o := p.newObj(elem, name)
	o.IsBytes = true
	o.ElemW = w
	o.Cap = n
	if symbolic {
		o.Base = p.fresh("mem_"+name, Arr(w))
	} else {
		o.Base = p.tc.ConstArr(w, p.tc.Const(w, 0))
	}
	return o
}

func (p *Path) newElemStore(elem types.Type, n int, name string) *Object {
	o := p.newObj(types.NewArray(elem, int64(n)), name)
	o.Elems = make([]*Object, n)
	for i := 0; i < n; i++ {
		o.Elems[i] = p.newObject(elem, name+"[]")
	}
	return o
}

func (p *Path) constString(s string) *SliceV {
	if p.strConsts == nil {
		p.strConsts = map[string]*Object{}
	}
	o, ok := p.strConsts[s]
	if !ok {
		o = p.newObj(types.Typ[types.Uint8], "str")
		o.IsBytes = true
		o.ElemW = 8
		o.Concrete = []byte(s)
		o.Cap = p.tc.Const(64, uint64(len(s)))
		o.ReadOnly = true
		p.strConsts[s] = o
	}
	n := p.tc.Const(64, uint64(len(s)))
	return &SliceV{Obj: o, Off: p.tc.Const(64, 0), Len: n, Cap: n, IsString: true}
}

// concreteString returns the Go string if the value is fully concrete.
func (p *Path) concreteString(s *SliceV) (string, bool) {
	if s.Obj == nil {
		return "", true
	}
	if !s.Len.IsConst() || !s.Off.IsConst() {
		return "", false
	}
	n := int(s.Len.Val)
	if n > 1<<20 {
		return "", false
	}
	off := s.Off.Val
	if s.Obj.Concrete != nil && len(s.Obj.Log) == 0 {
		if int(off)+n <= len(s.Obj.Concrete) {
			return string(s.Obj.Concrete[off : int(off)+n]), true
		}
	}
	b := make([]byte, n)
	for i := 0; i < n; i++ {
		t := p.readElem(s.Obj, p.tc.Const(64, off+uint64(i)))
		if !t.IsConst() {
			return "", false
		}
		b[i] = byte(t.Val)
	}
	return string(b), true
}

// ---------- zero values ----------

func (p *Path) zero(t types.Type) Value {
	switch u := t.Underlying().(type) {
	case *types.Basic:
		switch {
		case u.Info()&types.IsBoolean != 0:
			return p.tc.False
		case u.Info()&types.IsInteger != 0:
			return p.tc.Const(typeWidth(t), 0)
		case u.Info()&types.IsFloat != 0:
			return FloatV{0, 64}
		case u.Info()&types.IsString != 0:
			return p.constString("")
		case u.Kind() == types.UnsafePointer:
			return &PtrV{}
		case u.Kind() == types.UntypedNil:
			return &PtrV{}
		}
	case *types.Pointer:
		return &PtrV{}
	case *types.Slice:
		z := p.tc.Const(64, 0)
		return &SliceV{Off: z, Len: z, Cap: z}
	case *types.Struct:
		sv := &StructV{Typ: t, Fields: make([]Value, u.NumFields())}
		for i := range sv.Fields {
			sv.Fields[i] = p.zero(u.Field(i).Type())
		}
		return sv
	case *types.Array:
		n := int(u.Len())
		av := &ArrayV{Typ: t, Elems: make([]Value, n)}
		for i := range av.Elems {
			av.Elems[i] = p.zero(u.Elem())
		}
		return av
	case *types.Interface:
		return &IfaceV{}
	case *types.Signature:
		return &FuncV{}
	case *types.Map:
		return &MapV{}
	case *types.Chan:
		return (*ChanV)(nil)
	case *types.Tuple:
		tv := make(TupleV, u.Len())
		for i := range tv {
			tv[i] = p.zero(u.At(i).Type())
		}
		return tv
	case *types.TypeParam:
		p.unsupported("zero value of type parameter %s", t)
	}
	p.unsupported("zero value of %s", t)
	return nil
}

// ---------- byte store access ----------

// readElem reads element idx (64-bit term) of a byte-store object in its current state.
func (p *Path) readElem(o *Object, idx *Term) *Term {
	return p.readElemAt(o, len(o.Log), idx)
}

func (p *Path) concreteArr(o *Object) *Term {
	if p.concArr == nil {
		p.concArr = map[int]*Term{}
	}
	if t, ok := p.concArr[o.ID]; ok {
		return t
	}
	arr := p.tc.ConstArr(8, p.tc.Const(8, 0))
	for i, b := range o.Concrete {
		arr = p.tc.Store(arr, p.tc.Const(64, uint64(i)), p.tc.Const(8, uint64(b)))
	}
	p.concArr[o.ID] = arr
	return arr
}

func (p *Path) readElemAt(o *Object, upto int, idx *Term) *Term {
	if !o.IsBytes {
		p.unsupported("readElem on non-bytestore object %s", o.Name)
	}
	key := [3]int{o.ID, upto, idx.ID}
	if p.readMemo == nil {
		p.readMemo = map[[3]int]*Term{}
	}
	if t, ok := p.readMemo[key]; ok {
		return t
	}
	tc := p.tc
	type pend struct{ cond, val *Term }
	var chain []pend
	var result *Term
	for i := upto - 1; i >= 0 && result == nil; i-- {
		e := &o.Log[i]
		switch e.kind {
		case logStore:
			c := tc.Eq(e.idx, idx)
			if c.IsTrue() {
				result = e.val
			} else if !c.IsFalse() {
				chain = append(chain, pend{c, e.val})
			}
		case logCopy, logFill:
			c := tc.And(tc.Ule(e.idx, idx), tc.Ult(idx, tc.BvAdd(e.idx, e.n)))
			if !c.IsConst() {
				// solver-aided pruning: is the index provably inside / outside this range?
				switch p.implied(c) {
				case 1:
					c = tc.True
				case -1:
					c = tc.False
				}
			}
			if c.IsFalse() {
				continue
			}
			var v *Term
			if e.kind == logFill {
				v = e.val
			} else {
				v = p.readElemAt(e.src, e.srcLen, tc.BvAdd(tc.BvSub(idx, e.idx), e.srcOff))
				if v.S.W != o.ElemW {
					p.unsupported("copy between different element widths")
				}
			}
			if c.IsTrue() {
				result = v
			} else {
				chain = append(chain, pend{c, v})
			}
		}
	}
	if result == nil {
		if o.Concrete != nil {
			if idx.IsConst() {
				if idx.Val < uint64(len(o.Concrete)) {
					result = tc.Const(8, uint64(o.Concrete[idx.Val]))
				} else {
					result = tc.Const(8, 0)
				}
			} else {
				result = tc.Select(p.concreteArr(o), idx)
			}
		} else {
			result = tc.Select(o.Base, idx)
		}
	}
	for i := len(chain) - 1; i >= 0; i-- {
		result = tc.Ite(chain[i].cond, chain[i].val, result)
	}
	p.readMemo[key] = result
	return result
}

// external reports whether the object with this id existed before the current
// merge region started, or is a global (or part of one) that was first touched
// - and therefore lazily created - inside the region: writes to those are
// visible after the join and must not be merged.
func (p *Path) external(id int) bool {
	if id <= p.mergeBaseObj {
		return true
	}
	for _, r := range p.extRanges {
		if id > r[0] && id <= r[1] {
			return true
		}
	}
	return false
}

func (p *Path) writeElem(o *Object, idx, v *Term) {
	if o.ReadOnly {
		p.unsupported("write to read-only object %s", o.Name)
	}
	if v.S.W != o.ElemW {
		p.unsupported("writeElem width mismatch %d vs %d", v.S.W, o.ElemW)
	}
	if p.guard != nil && p.external(o.ID) {
		panic(mergeAbort{"memory write in merge region"})
	}
	o.Log = append(o.Log, logEntry{kind: logStore, idx: idx, val: v})
}

func (p *Path) copyElems(dst *Object, dstOff *Term, src *Object, srcOff, n *Term) {
	if n.IsConst() && n.Val == 0 {
		return
	}
	if dst.ReadOnly {
		p.unsupported("copy to read-only object")
	}
	if p.guard != nil && p.external(dst.ID) {
		panic(mergeAbort{"memory write in merge region"})
	}
	if dst.ElemW != src.ElemW {
		p.unsupported("copy between different element widths")
	}
	// small concrete copies become individual stores (keeps terms flat)
	if n.IsConst() && n.Val <= 32 && dstOff.IsConst() && srcOff.IsConst() {
		vals := make([]*Term, n.Val)
		for i := uint64(0); i < n.Val; i++ {
			vals[i] = p.readElem(src, p.tc.Const(64, srcOff.Val+i))
		}
		for i := uint64(0); i < n.Val; i++ {
			dst.Log = append(dst.Log, logEntry{kind: logStore, idx: p.tc.Const(64, dstOff.Val+i), val: vals[i]})
		}
		return
	}
	dst.Log = append(dst.Log, logEntry{kind: logCopy, idx: dstOff, n: n, src: src, srcLen: len(src.Log), srcOff: srcOff})
}

func (p *Path) fillElems(dst *Object, off, n, v *Term) {
	if n.IsConst() && n.Val == 0 {
		return
	}
	if dst.ReadOnly {
		p.unsupported("fill of read-only object")
	}
	if p.guard != nil && p.external(dst.ID) {
		panic(mergeAbort{"memory write in merge region"})
	}
	dst.Log = append(dst.Log, logEntry{kind: logFill, idx: off, n: n, val: v})
}

// ---------- load / store through pointers ----------

func (p *Path) loadObj(o *Object) Value {
	switch {
	case o.Fields != nil:
		st := o.Typ.Underlying().(*types.Struct)
		_ = st
		sv := &StructV{Typ: o.Typ, Fields: make([]Value, len(o.Fields))}
		for i, f := range o.Fields {
			sv.Fields[i] = p.loadObj(f)
		}
		return sv
	case o.IsBytes:
		at, ok := o.Typ.Underlying().(*types.Array)
		if !ok {
			p.unsupported("load of whole byte store that is not an array type (%s)", o.Typ)
		}
		n := int(at.Len())
		av := &ArrayV{Typ: o.Typ, Elems: make([]Value, n)}
		for i := 0; i < n; i++ {
			av.Elems[i] = p.readElem(o, p.tc.Const(64, uint64(i)))
		}
		return av
	case o.Elems != nil:
		av := &ArrayV{Typ: o.Typ, Elems: make([]Value, len(o.Elems))}
		for i, e := range o.Elems {
			av.Elems[i] = p.loadObj(e)
		}
		return av
	default:
		if o.Val == nil {
			// struct with zero fields
			if st, ok := o.Typ.Underlying().(*types.Struct); ok && st.NumFields() == 0 {
				return &StructV{Typ: o.Typ}
			}
			if at, ok := o.Typ.Underlying().(*types.Array); ok && at.Len() == 0 {
				return &ArrayV{Typ: o.Typ}
			}
		}
		return o.Val
	}
}

func (p *Path) storeObj(o *Object, v Value) {
	if p.guard != nil && p.external(o.ID) {
		panic(mergeAbort{"memory write in merge region"})
	}
	if o.ReadOnly {
		p.unsupported("store to read-only object")
	}
	switch {
	case o.Fields != nil:
		sv, ok := v.(*StructV)
		if !ok {
			if _, isP := v.(Poison); isP {
				for _, f := range o.Fields {
					p.storeObj(f, v)
				}
				return
			}
			p.unsupported("store non-struct %T into struct cell %s", v, o.Typ)
		}
		for i, f := range o.Fields {
			p.storeObj(f, sv.Fields[i])
		}
	case o.IsBytes:
		av, ok := v.(*ArrayV)
		if !ok {
			p.unsupported("store %T into byte-store array", v)
		}
		for i, e := range av.Elems {
			o.Log = append(o.Log, logEntry{kind: logStore, idx: p.tc.Const(64, uint64(i)), val: e.(*Term)})
		}
	case o.Elems != nil:
		av, ok := v.(*ArrayV)
		if !ok {
			p.unsupported("store %T into array cell", v)
		}
		for i, e := range o.Elems {
			p.storeObj(e, av.Elems[i])
		}
	default:
		o.Val = v
	}
}

// ptrTo returns a pointer to the cell o (array-window form for byte stores).
func (p *Path) ptrTo(o *Object) *PtrV {
	if o.IsBytes {
		return &PtrV{Obj: o, Idx: p.tc.Const(64, 0), Win: true}
	}
	return &PtrV{Obj: o}
}

func (p *Path) load(ptr *PtrV, t types.Type) Value {
	if ptr.Obj == nil {
		p.unsupported("internal: load through nil pointer not guarded")
	}
	if ptr.Win {
		at, ok := t.Underlying().(*types.Array)
		if !ok {
			p.unsupported("load of array window with non-array type %s", t)
		}
		n := int(at.Len())
		av := &ArrayV{Typ: t, Elems: make([]Value, n)}
		for i := 0; i < n; i++ {
			av.Elems[i] = p.readElem(ptr.Obj, p.tc.BvAdd(ptr.Idx, p.tc.Const(64, uint64(i))))
		}
		return av
	}
	if ptr.Idx != nil {
		return p.readElem(ptr.Obj, ptr.Idx)
	}
	return p.loadObj(ptr.Obj)
}

func (p *Path) store(ptr *PtrV, v Value) {
	if ptr.Win {
		av, ok := v.(*ArrayV)
		if !ok {
			p.unsupported("store %T to array window", v)
		}
		for i, e := range av.Elems {
			p.writeElem(ptr.Obj, p.tc.BvAdd(ptr.Idx, p.tc.Const(64, uint64(i))), e.(*Term))
		}
		return
	}
	if ptr.Idx != nil {
		t, ok := v.(*Term)
		if !ok {
			p.unsupported("store %T to byte element", v)
		}
		p.writeElem(ptr.Obj, ptr.Idx, t)
		return
	}
	p.storeObj(ptr.Obj, v)
}

// copyValue deep-copies aggregate values (struct/array values are immutable in
// our representation, so sharing is fine; this is the identity).
func copyValue(v Value) Value { return v }

// implied asks the solver whether the path condition (and merge guard) decides c:
// +1 if it implies c, -1 if it implies not c, 0 otherwise. Results are cached;
// they stay valid because the path condition only grows.
func (p *Path) implied(c *Term) int {
	if !p.noIntervals {
		if d := p.decide(c, 0); d != 0 {
			p.st.IntervalDecided++
			return d
		}
	}
	if p.noSolverSimp {
		return 0
	}
	if p.impliedMemo == nil {
		p.impliedMemo = map[[2]int]int{}
	}
	gid := 0
	if p.guard != nil {
		gid = p.guard.ID
	}
	key := [2]int{c.ID, gid}
	if r, ok := p.impliedMemo[key]; ok && r != 0 {
		return r
	}
	// cross-path cache: execution is deterministic, so (decisions so far, term ids) identify the query
	ckey := p.traceKey() + "|" + strconv.FormatUint(c.H[0], 16) + strconv.FormatUint(c.H[1], 16)
	if p.guard != nil {
		ckey += "|" + strconv.FormatUint(p.guard.H[0], 16) + strconv.FormatUint(p.guard.H[1], 16)
	}
	if v, ok := p.eng.simpCache.Load(ckey); ok {
		r := v.(int)
		p.impliedMemo[key] = r
		return r
	}
	q := c
	nq := p.tc.Not(c)
	if p.guard != nil {
		q = p.tc.And(p.guard, c)
		nq = p.tc.And(p.guard, nq)
	}
	res := 0
	if r, _, _ := p.solver.CheckWith(q, nil); r == Unsat {
		res = -1
	} else if r == Sat {
		if r2, _, _ := p.solver.CheckWith(nq, nil); r2 == Unsat {
			res = 1
		}
	}
	p.st.SimpQueries++
	p.impliedMemo[key] = res
	p.eng.simpCache.Store(ckey, res)
	return res
}
