package main

import (
	"encoding/json"
	"fmt"
	"go/types"
	"os"
	"path/filepath"
	"runtime"
	"sort"
	"strings"
	"sync"
	"time"

	"golang.org/x/tools/go/packages"
	"golang.org/x/tools/go/ssa"
	"golang.org/x/tools/go/ssa/ssautil"
)

type HarnessCfg struct {
	Name           string                    `json:"name"`
	Func           string                    `json:"func"` // pkgpath.Func
	Unwind         int                       `json:"unwind"`
	NoPanic        bool                      `json:"-"`
	AllowPanic     bool                      `json:"allow_panic"`
	MustReach      []string                  `json:"must_reach"`
	TierParams     map[string]map[string]int `json:"params"`
	Tiers          []string                  `json:"tiers"`
	Stubs          map[string]string         `json:"stubs"`
	Replay         string                    `json:"replay"` // native | none | driver:<TestName>
	MapOrderDesc   bool                      `json:"map_order_desc"`
	MaxPaths       int                       `json:"max_paths"`
	LockEvents     bool                      `json:"lock_events"`
	WitnessSamples int                       `json:"witness_samples"`
	Witness        []string                  `json:"witness"` // tags of deliberately falsifiable assertions (translator validation)
	Doc            string                    `json:"doc"`
	ECDHMayFail    bool                      `json:"ecdh_may_fail"` // the X25519 model may refuse the remote share (low-order point)
	Noop           []string                  `json:"noop"` // functions with empty bodies, for this harness only
	Params         map[string]int            `json:"-"`
}

func witnessSamples(h *HarnessCfg) int {
	if h.WitnessSamples > 0 {
		return h.WitnessSamples
	}
	return 4
}

type CheckCfg struct {
	Property  string            `json:"property"`
	Packages  []string          `json:"packages"`
	Overlay   map[string]string `json:"overlay"`
	Stubs     map[string]string `json:"stubs"`
	Noop      []string          `json:"noop"`
	InitPkgs  []string          `json:"init_pkgs"`
	Harnesses []*HarnessCfg     `json:"harnesses"`
	Assume    []string          `json:"assumptions"`
	Outside   []string          `json:"outside"`
	dir       string
}

type Engine struct {
	prog       *ssa.Program
	pkgs       []*packages.Package
	modPath    string
	cfg        *CheckCfg
	stubs      map[string]*ssa.Function
	isStubFn   map[*ssa.Function]bool
	noop       []string
	initPkgs   map[string]bool
	maxInstrs  int64
	maxElems   int
	noMerge    bool
	mu         sync.Mutex
	pdoms      map[*ssa.Function]*pdomInfo
	msCache    map[string]*ssa.Function
	timeoutMs  int
	simpCache  sync.Map
	tmpl       *Path
	tmplMu     sync.Mutex
	forkSites  map[string]int
	noTemplate bool
	verbose    bool
	solverLog  string
}

var repoDir = func() string {
	if d := os.Getenv("VERIF_REPO"); d != "" {
		return d
	}
	return "/repo"
}()

func verifDir() string {
	if d := os.Getenv("VERIF_DIR"); d != "" {
		return d
	}
	return "/verif"
}

func loadCfg(id string) (*CheckCfg, error) {
	dir := filepath.Join(verifDir(), "harness", id)
	b, err := os.ReadFile(filepath.Join(dir, "config.json"))
	if err != nil {
		return nil, err
	}
	cfg := &CheckCfg{}
	if err := json.Unmarshal(b, cfg); err != nil {
		return nil, fmt.Errorf("config.json: %w", err)
	}
	cfg.dir = dir
	return cfg, nil
}

func (cfg *CheckCfg) overlayMap() (map[string][]byte, error) {
	ov := map[string][]byte{}
	add := func(rel, src string) error {
		b, err := os.ReadFile(src)
		if err != nil {
			return err
		}
		ov[filepath.Join(repoDir, rel)] = b
		return nil
	}
	vfdir := filepath.Join(verifDir(), "harness", "zzvf")
	ents, _ := os.ReadDir(vfdir)
	for _, e := range ents {
		if strings.HasSuffix(e.Name(), ".go") {
			if err := add(filepath.Join("zzvf", e.Name()), filepath.Join(vfdir, e.Name())); err != nil {
				return nil, err
			}
		}
	}
	for rel, src := range cfg.Overlay {
		if err := add(rel, filepath.Join(cfg.dir, src)); err != nil {
			return nil, err
		}
	}
	return ov, nil
}

func NewEngine(cfg *CheckCfg) (*Engine, error) {
	ov, err := cfg.overlayMap()
	if err != nil {
		return nil, err
	}
	pcfg := &packages.Config{
		Mode:       packages.LoadAllSyntax,
		Dir:        repoDir,
		Overlay:    ov,
		BuildFlags: []string{"-tags=verif"},
		Env:        append(os.Environ(), "GOFLAGS=-mod=mod", "GOPROXY=off", "GOTOOLCHAIN=local"),
	}
	pats := append([]string{}, cfg.Packages...)
	pats = append(pats, "./zzvf")
	pkgs, err := packages.Load(pcfg, pats...)
	if err != nil {
		return nil, err
	}
	nerr := 0
	packages.Visit(pkgs, nil, func(p *packages.Package) {
		for _, e := range p.Errors {
			if nerr < 20 {
				fmt.Fprintf(os.Stderr, "load error: %s: %v\n", p.PkgPath, e)
			}
			nerr++
		}
	})
	if nerr > 0 {
		return nil, fmt.Errorf("%d package load errors (does /repo compile with the harness overlay?)", nerr)
	}
	prog, _ := ssautil.AllPackages(pkgs, ssa.InstantiateGenerics)
	prog.Build()
	e := &Engine{prog: prog, pkgs: pkgs, cfg: cfg, modPath: "github.com/mycoria/mycoria",
		stubs: map[string]*ssa.Function{}, initPkgs: map[string]bool{}, maxInstrs: 20_000_000, maxElems: 64,
		pdoms: map[*ssa.Function]*pdomInfo{}, forkSites: map[string]int{}, msCache: map[string]*ssa.Function{}, timeoutMs: 60000}
	e.noop = append(e.noop, cfg.Noop...)
	for _, ip := range cfg.InitPkgs {
		e.initPkgs[ip] = true
	}
	return e, nil
}

func (e *Engine) initPkg(path string) bool {
	if strings.HasPrefix(path, e.modPath) {
		return true
	}
	return e.initPkgs[path]
}

func (e *Engine) isNoop(name string) bool { return matchNoop(e.noop, name) }

func matchNoop(list []string, name string) bool {
	for _, n := range list {
		if n == name {
			return true
		}
		if strings.HasSuffix(n, "*") && strings.HasPrefix(name, n[:len(n)-1]) {
			return true
		}
	}
	return false
}

// findFunc resolves "pkgpath.Func" or "(*pkgpath.T).Method" / "(pkgpath.T).Method".
func (e *Engine) findFunc(name string) *ssa.Function {
	if strings.HasPrefix(name, "(") {
		// method
		end := strings.Index(name, ").")
		if end < 0 {
			return nil
		}
		recv := name[1:end]
		meth := name[end+2:]
		ptr := strings.HasPrefix(recv, "*")
		recv = strings.TrimPrefix(recv, "*")
		dot := strings.LastIndex(recv, ".")
		if dot < 0 {
			return nil
		}
		pkg := e.prog.ImportedPackage(recv[:dot])
		if pkg == nil {
			return nil
		}
		tn := pkg.Type(recv[dot+1:])
		if tn == nil {
			return nil
		}
		var T types.Type = tn.Type()
		if ptr {
			T = types.NewPointer(T)
		}
		sel := e.prog.MethodSets.MethodSet(T).Lookup(pkg.Pkg, meth)
		if sel == nil {
			return nil
		}
		return e.prog.MethodValue(sel)
	}
	dot := strings.LastIndex(name, ".")
	if dot < 0 {
		return nil
	}
	pkg := e.prog.ImportedPackage(name[:dot])
	if pkg == nil {
		return nil
	}
	return pkg.Func(name[dot+1:])
}

func (e *Engine) setStubs(h *HarnessCfg) error {
	e.stubs = map[string]*ssa.Function{}
	e.isStubFn = map[*ssa.Function]bool{}
	e.tmpl = nil // initialisers may call stubbed functions: one template world per harness
	all := map[string]string{}
	for k, v := range e.cfg.Stubs {
		all[k] = v
	}
	for k, v := range h.Stubs {
		if v == "" {
			delete(all, k)
		} else {
			all[k] = v
		}
	}
	for real, rep := range all {
		f := e.findFunc(rep)
		if f == nil {
			return fmt.Errorf("stub replacement %q not found", rep)
		}
		e.stubs[real] = f
		e.isStubFn[f] = true
	}
	return nil
}

func (e *Engine) lookupMethod(dyn types.Type, m *types.Func) *ssa.Function {
	key := dyn.String() + "#" + m.Id()
	e.mu.Lock()
	defer e.mu.Unlock()
	if f, ok := e.msCache[key]; ok {
		return f
	}
	f := e.prog.LookupMethod(dyn, m.Pkg(), m.Name())
	e.msCache[key] = f
	return f
}

func (e *Engine) namedType(pkgPath, name string) types.Type {
	pkg := e.prog.ImportedPackage(pkgPath)
	if pkg == nil {
		return nil
	}
	tn := pkg.Type(name)
	if tn == nil {
		return nil
	}
	return tn.Type()
}

func (e *Engine) errorStringType() types.Type { return e.namedType("errors", "errorString") }

// ---------- exploration ----------

type HarnessResult struct {
	Cfg        *HarnessCfg
	Paths      int
	EndKinds   map[string]int
	Stats      PathStats
	Violations []*Violation
	Inconcl    []string
	Solver     SolverStats
	Wall       time.Duration
	Samples    []string
	PathSample []string
}

type workItem struct{ prefix []int }

func (e *Engine) explore(h *HarnessCfg, workers int) *HarnessResult {
	start := time.Now()
	res := &HarnessResult{Cfg: h, EndKinds: map[string]int{}}
	res.Stats.Reached = map[string]bool{}
	res.Stats.Funcs = map[string]int{}
	res.Stats.Assumptions = map[string]bool{}
	fn := e.findFunc(h.Func)
	if fn == nil {
		res.Inconcl = append(res.Inconcl, "harness function not found: "+h.Func)
		return res
	}
	var mu sync.Mutex
	cond := sync.NewCond(&mu)
	queue := []workItem{{nil}}
	active := 0
	stopped := false
	maxPaths := h.MaxPaths
	if maxPaths == 0 {
		maxPaths = 2_000_000
	}
	seenViol := map[string]bool{}
	nWit := map[string]int{}
	var wg sync.WaitGroup
	if e.verbose {
		go func() {
			for {
				time.Sleep(10 * time.Second)
				mu.Lock()
				if stopped || (len(queue) == 0 && active == 0) {
					mu.Unlock()
					return
				}
				fmt.Printf("  [%s] paths=%d queue=%d active=%d ends=%v obligations=%d\n", h.Name, res.Paths, len(queue), active, res.EndKinds, res.Stats.Obligations)
				e.mu.Lock()
				type kv struct {
					k string
					v int
				}
				var top []kv
				for k, v := range e.forkSites {
					top = append(top, kv{k, v})
				}
				sort.Slice(top, func(i, j int) bool { return top[i].v > top[j].v })
				for i := 0; i < len(top) && i < 4; i++ {
					fmt.Printf("      forks %6d at %s\n", top[i].v, top[i].k)
				}
				e.mu.Unlock()
				mu.Unlock()
			}
		}()
	}
	for w := 0; w < workers; w++ {
		wg.Add(1)
		go func(wid int) {
			defer wg.Done()
			var solver *Solver
			defer func() {
				if solver != nil {
					mu.Lock()
					addSolverStats(&res.Solver, &solver.Stats)
					mu.Unlock()
					solver.Close()
				}
			}()
			for {
				mu.Lock()
				for len(queue) == 0 && active > 0 && !stopped {
					cond.Wait()
				}
				if stopped || (len(queue) == 0 && active == 0) {
					mu.Unlock()
					cond.Broadcast()
					return
				}
				it := queue[len(queue)-1]
				queue = queue[:len(queue)-1]
				active++
				mu.Unlock()

				if solver == nil {
					var err error
					solver, err = NewSolver(primarySolver, nil, e.timeoutMs)
					if err != nil {
						mu.Lock()
						res.Inconcl = append(res.Inconcl, "cannot start solver: "+err.Error())
						stopped = true
						active--
						mu.Unlock()
						cond.Broadcast()
						return
					}
					if e.solverLog != "" && wid == 0 {
						f, _ := os.Create(e.solverLog)
						solver.log = f
					}
				}
				p, endKind, endMsg := e.runPath(h, fn, it.prefix, solver)

				mu.Lock()
				active--
				res.Paths++
				res.EndKinds[endKind]++
				if endKind == "unsupported" || endKind == "unwind" || endKind == "internal" {
					msg := endKind + ": " + endMsg
					if len(res.Inconcl) < 20 {
						res.Inconcl = append(res.Inconcl, msg)
					}
				}
				if len(res.PathSample) < 3 && endKind == "done" {
					res.PathSample = append(res.PathSample, fmt.Sprintf("path decisions=%v instrs=%d obligations=%d", p.trace, p.st.Instrs, p.st.Obligations))
				}
				mergeStats(&res.Stats, &p.st)
				for _, s := range p.st.Inconcl {
					if len(res.Inconcl) < 20 {
						res.Inconcl = append(res.Inconcl, s)
					}
				}
				for _, v := range p.violations {
					k := v.Kind + "|" + v.Tag + "|" + v.Site
					if v.Kind == "assert" && contains(h.Witness, v.Tag) {
						// translator-validation witnesses: keep models from several different paths
						nWit[k]++
						if nWit[k] > 1 && nWit[k] <= witnessSamples(h) {
							res.Violations = append(res.Violations, v)
						}
					}
					if !seenViol[k] {
						seenViol[k] = true
						res.Violations = append(res.Violations, v)
					}
				}
				for _, s := range p.sibs {
					queue = append(queue, workItem{s})
				}
				if res.Paths >= maxPaths {
					stopped = true
					res.Inconcl = append(res.Inconcl, fmt.Sprintf("path budget %d exhausted", maxPaths))
				}
				mu.Unlock()
				cond.Broadcast()
			}
		}(w)
	}
	wg.Wait()
	for _, t := range h.MustReach {
		if !res.Stats.Reached[t] {
			res.Inconcl = append(res.Inconcl, "vacuous: must_reach tag not reached: "+t)
		}
	}
	res.Wall = time.Since(start)
	return res
}

func addSolverStats(a, b *SolverStats) {
	a.Queries += b.Queries
	a.Sat += b.Sat
	a.Unsat += b.Unsat
	a.Unknown += b.Unknown
	a.Fallbacks += b.Fallbacks
	a.Time += b.Time
	if b.MaxQuery > a.MaxQuery {
		a.MaxQuery = b.MaxQuery
	}
}

func mergeStats(a, b *PathStats) {
	a.Instrs += b.Instrs
	a.Obligations += b.Obligations
	a.Discharged += b.Discharged
	a.Unknown += b.Unknown
	a.Forks += b.Forks
	a.Merges += b.Merges
	a.SimpQueries += b.SimpQueries
	a.IntervalDecided += b.IntervalDecided
	a.IntervalDischarged += b.IntervalDischarged
	for k := range b.Reached {
		a.Reached[k] = true
	}
	for k, v := range b.Funcs {
		a.Funcs[k] += v
	}
	for k := range b.Assumptions {
		a.Assumptions[k] = true
	}
	for fn, bm := range b.Blocks {
		am := a.Blocks[fn]
		if am == nil {
			am = map[int]bool{}
			if a.Blocks == nil {
				a.Blocks = map[*ssa.Function]map[int]bool{}
			}
			a.Blocks[fn] = am
		}
		for i := range bm {
			am[i] = true
		}
	}
	for _, s := range b.Samples {
		if len(a.Samples) < 5 {
			a.Samples = append(a.Samples, s)
		}
	}
}

// revalidate re-runs the single path of a counterexample with every input
// pinned to the recorded value and reports whether the same violation is
// derived again (used for harnesses whose environment models have no native
// counterpart; it re-checks the engine's path replay and the solver's model,
// not the models themselves).
func (e *Engine) revalidate(h *HarnessCfg, v *Violation) (bool, string) {
	fn := e.findFunc(h.Func)
	if fn == nil {
		return false, "harness function not found"
	}
	solver, err := NewSolver(primarySolver, nil, e.timeoutMs)
	if err != nil {
		return false, err.Error()
	}
	defer solver.Close()
	p, endKind, endMsg := e.runPathPinned(h, fn, v.Trace, solver, v.Inputs)
	for _, w := range p.violations {
		if w.Kind == v.Kind && w.Tag == v.Tag && w.Site == v.Site {
			return true, "re-derived with all inputs pinned to the counterexample"
		}
	}
	return false, "not re-derived (path end: " + endKind + " " + endMsg + ")"
}

func (e *Engine) runPath(h *HarnessCfg, fn *ssa.Function, prefix []int, solver *Solver) (p *Path, endKind, endMsg string) {
	return e.runPathPinned(h, fn, prefix, solver, nil)
}

func (e *Engine) runPathPinned(h *HarnessCfg, fn *ssa.Function, prefix []int, solver *Solver, pin []InputRec) (p *Path, endKind, endMsg string) {
	tc := NewTermCtx()
	solver.ctx = tc
	solver.Reset()
	p = &Path{eng: e, h: h, tc: tc, solver: solver, prefix: prefix, pin: pin,
		globals: map[*ssa.Global]*Object{}, initRun: map[*ssa.Package]bool{}}
	p.st.Funcs = map[string]int{}
	p.st.Reached = map[string]bool{}
	p.st.Blocks = map[*ssa.Function]map[int]bool{}
	p.lockEvents = h.LockEvents
	endKind = "done"
	defer func() {
		if r := recover(); r != nil {
			switch x := r.(type) {
			case pathEnd:
				endKind, endMsg = x.Kind, x.Msg
			case mergeAbort:
				endKind, endMsg = "internal", "stray mergeAbort: "+x.why
			case lenientFail:
				endKind, endMsg = "unsupported", x.msg
			default:
				buf := make([]byte, 4096)
				n := runtime.Stack(buf, false)
				endKind, endMsg = "internal", fmt.Sprintf("engine panic: %v at %s\n%s", r, p.where(), buf[:n])
			}
		}
	}()
	p.runFunction(fn, nil, nil, nil)
	return
}

// ---------- evidence ----------

type Evidence struct {
	PropertyID  string         `json:"property_id"`
	Tier        string         `json:"tier"`
	Seed        int            `json:"seed"`
	Level       string         `json:"level"`
	Coverage    map[string]any `json:"coverage"`
	Assumptions []string       `json:"assumptions"`
	WallS       float64        `json:"wall_s"`
	Violations  int            `json:"violations"`
}

func topFuncs(m map[string]int, modPath string) []string {
	var ks []string
	for k := range m {
		ks = append(ks, k)
	}
	sort.Strings(ks)
	return ks
}
