package main

// Natives: when every argument is concrete the engine evaluates selected
// text-processing functions of the standard library with the real Go
// implementation instead of interpreting them (net/url, netip parsing,
// strconv). They are never applied to symbolic data.

import (
	"go/types"
	"net/netip"
	"net/url"
	"strconv"

	"golang.org/x/tools/go/ssa"
)

func (p *Path) concreteArgString(v Value, what string) string {
	s, ok := p.concreteString(v.(*SliceV))
	if !ok {
		p.unsupported("%s on symbolic text", what)
	}
	return s
}

func (p *Path) setField(o *Object, name string, v Value) {
	st := o.Typ.Underlying().(*types.Struct)
	for i := 0; i < st.NumFields(); i++ {
		if st.Field(i).Name() == name {
			p.storeObj(o.Fields[i], v)
			return
		}
	}
	p.unsupported("field %s not found in %s", name, o.Typ)
}

// addrValue builds a netip.Addr value of static type t from a concrete address.
func (p *Path) addrValue(t types.Type, a netip.Addr) Value {
	st := t.Underlying().(*types.Struct)
	u128 := st.Field(0).Type()
	zt := st.Field(1).Type()
	if !a.IsValid() {
		return p.zero(t)
	}
	if a.Zone() != "" {
		p.unsupported("netip address with zone")
	}
	b := a.As16()
	hi, lo := uint64(0), uint64(0)
	for i := 0; i < 8; i++ {
		hi = hi<<8 | uint64(b[i])
		lo = lo<<8 | uint64(b[8+i])
	}
	gname := "z6noz"
	if a.Is4() {
		gname = "z4"
	}
	pkg := p.eng.prog.ImportedPackage("net/netip")
	g := pkg.Members[gname].(*ssa.Global)
	z := p.loadObj(p.global(g))
	_ = zt
	return &StructV{Typ: t, Fields: []Value{
		&StructV{Typ: u128, Fields: []Value{p.tc.Const(64, hi), p.tc.Const(64, lo)}}, z}}
}

func (p *Path) errValue(err error, what string) Value {
	if err == nil {
		return &IfaceV{}
	}
	return p.sentinelError(what + ": " + err.Error())
}

func init() {
	intrinsics["net/netip.ParseAddr"] = func(p *Path, fn *ssa.Function, args []Value) Value {
		s := p.concreteArgString(args[0], "netip.ParseAddr")
		a, err := netip.ParseAddr(s)
		return TupleV{p.addrValue(fn.Signature.Results().At(0).Type(), a), p.errValue(err, "netip.ParseAddr")}
	}
	intrinsics["net/netip.MustParseAddr"] = func(p *Path, fn *ssa.Function, args []Value) Value {
		s := p.concreteArgString(args[0], "netip.MustParseAddr")
		a, err := netip.ParseAddr(s)
		if err != nil {
			p.obligation(p.tc.False, "panic", "explicit-panic", "netip.MustParseAddr: "+err.Error())
			p.end("gopanic", "MustParseAddr")
		}
		return p.addrValue(fn.Signature.Results().At(0).Type(), a)
	}
	prefixValue := func(p *Path, t types.Type, pf netip.Prefix) Value {
		st := t.Underlying().(*types.Struct)
		return &StructV{Typ: t, Fields: []Value{p.addrValue(st.Field(0).Type(), pf.Addr()), p.tc.Const(8, uint64(pf.Bits()+1))}}
	}
	intrinsics["net/netip.MustParsePrefix"] = func(p *Path, fn *ssa.Function, args []Value) Value {
		s := p.concreteArgString(args[0], "netip.MustParsePrefix")
		pf, err := netip.ParsePrefix(s)
		if err != nil {
			p.obligation(p.tc.False, "panic", "explicit-panic", "netip.MustParsePrefix: "+err.Error())
			p.end("gopanic", "MustParsePrefix")
		}
		return prefixValue(p, fn.Signature.Results().At(0).Type(), pf)
	}
	intrinsics["net/netip.ParsePrefix"] = func(p *Path, fn *ssa.Function, args []Value) Value {
		s := p.concreteArgString(args[0], "netip.ParsePrefix")
		pf, err := netip.ParsePrefix(s)
		if err != nil {
			return TupleV{p.zero(fn.Signature.Results().At(0).Type()), p.errValue(err, "netip.ParsePrefix")}
		}
		return TupleV{prefixValue(p, fn.Signature.Results().At(0).Type(), pf), &IfaceV{}}
	}
	intrinsics["strconv.ParseUint"] = func(p *Path, fn *ssa.Function, args []Value) Value {
		s := p.concreteArgString(args[0], "strconv.ParseUint")
		base, bits := args[1].(*Term), args[2].(*Term)
		if !base.IsConst() || !bits.IsConst() {
			p.unsupported("strconv.ParseUint with symbolic base/bits")
		}
		v, err := strconv.ParseUint(s, int(base.SignedVal()), int(bits.SignedVal()))
		return TupleV{p.tc.Const(64, v), p.errValue(err, "strconv.ParseUint")}
	}
	intrinsics["strconv.Atoi"] = func(p *Path, fn *ssa.Function, args []Value) Value {
		s := p.concreteArgString(args[0], "strconv.Atoi")
		v, err := strconv.Atoi(s)
		return TupleV{p.tc.Const(64, uint64(int64(v))), p.errValue(err, "strconv.Atoi")}
	}
	fmtInt := func(p *Path, fn *ssa.Function, args []Value) Value {
		v := args[0].(*Term)
		if !v.IsConst() {
			p.unsupported("%s of a symbolic integer", fn.Name())
		}
		base := 10
		if len(args) > 1 {
			b := args[1].(*Term)
			if !b.IsConst() {
				p.unsupported("symbolic base")
			}
			base = int(b.SignedVal())
		}
		if fn.Name() == "FormatUint" {
			return p.constString(strconv.FormatUint(v.Val, base))
		}
		return p.constString(strconv.FormatInt(v.SignedVal(), base))
	}
	intrinsics["strconv.FormatInt"] = fmtInt
	intrinsics["strconv.FormatUint"] = fmtInt
	intrinsics["strconv.Itoa"] = fmtInt
	intrinsics["net/url.Parse"] = func(p *Path, fn *ssa.Function, args []Value) Value {
		s := p.concreteArgString(args[0], "url.Parse")
		u, err := url.Parse(s)
		pt := fn.Signature.Results().At(0).Type().(*types.Pointer)
		if err != nil {
			return TupleV{&PtrV{}, p.errValue(err, "url.Parse")}
		}
		if u.User != nil {
			p.unsupported("url.Parse with userinfo")
		}
		o := p.newObject(pt.Elem(), "url")
		p.setField(o, "Scheme", p.constString(u.Scheme))
		p.setField(o, "Opaque", p.constString(u.Opaque))
		p.setField(o, "Host", p.constString(u.Host))
		p.setField(o, "Path", p.constString(u.Path))
		p.setField(o, "RawPath", p.constString(u.RawPath))
		p.setField(o, "RawQuery", p.constString(u.RawQuery))
		p.setField(o, "Fragment", p.constString(u.Fragment))
		p.setField(o, "RawFragment", p.constString(u.RawFragment))
		p.setField(o, "ForceQuery", p.tc.Bool(u.ForceQuery))
		p.setField(o, "OmitHost", p.tc.Bool(u.OmitHost))
		return TupleV{&PtrV{Obj: o}, &IfaceV{}}
	}
}

// ---- X25519 model: a key pair is identified by 32 arbitrary bytes (public
// bytes == private bytes as an identifier); the shared secret is an
// uninterpreted commutative function of the two identifiers, so
// ECDH(a, pub(b)) == ECDH(b, pub(a)) and nothing else is known about it. ----

func (p *Path) fieldObj(o *Object, name string) *Object {
	st := o.Typ.Underlying().(*types.Struct)
	for i := 0; i < st.NumFields(); i++ {
		if st.Field(i).Name() == name {
			return o.Fields[i]
		}
	}
	p.unsupported("field %s not found in %s", name, o.Typ)
	return nil
}

func (p *Path) first64(s *SliceV) *Term {
	tc := p.tc
	var t *Term
	for i := 0; i < 8; i++ {
		b := p.readElem(s.Obj, tc.BvAdd(s.Off, tc.Const(64, uint64(i))))
		if t == nil {
			t = b
		} else {
			t = tc.Concat(t, b)
		}
	}
	return t
}

func init() {
	byteSlice := func(p *Path, o *Object, n uint64) *SliceV {
		c := p.tc.Const(64, n)
		return &SliceV{Obj: o, Off: p.tc.Const(64, 0), Len: c, Cap: c}
	}
	intrinsics["(*crypto/ecdh.x25519Curve).GenerateKey"] = func(p *Path, fn *ssa.Function, args []Value) Value {
		privT := fn.Signature.Results().At(0).Type().(*types.Pointer).Elem()
		priv := p.newObject(privT, "x25519priv")
		pubField := p.fieldObj(priv, "publicKey")
		pubT := pubField.Typ.(*types.Pointer).Elem()
		pub := p.newObject(pubT, "x25519pub")
		id := p.newByteStore(types.Typ[types.Uint8], 8, p.tc.Const(64, 32), true, "x25519id")
		// a freshly generated key differs from every key generated before (32 random bytes):
		// without this the solver "finds" executions in which keys of different exchanges
		// coincide by collision
		{
			idS := &SliceV{Obj: id, Off: p.tc.Const(64, 0), Len: p.tc.Const(64, 32), Cap: p.tc.Const(64, 32)}
			f64 := p.first64(idS)
			for _, o := range p.x25519IDs {
				p.assume(p.tc.Not(p.tc.Eq(f64, o)))
			}
			p.x25519IDs = append(p.x25519IDs, f64)
		}
		p.storeObj(p.fieldObj(priv, "privateKey"), byteSlice(p, id, 32))
		p.storeObj(p.fieldObj(pub, "publicKey"), byteSlice(p, id, 32))
		p.storeObj(pubField, &PtrV{Obj: pub})
		p.note("X25519 idealised: key pair = 32 arbitrary identifier bytes; shared secret = uninterpreted commutative function of both identifiers")
		return TupleV{&PtrV{Obj: priv}, &IfaceV{}}
	}
	intrinsics["(*crypto/ecdh.x25519Curve).NewPublicKey"] = func(p *Path, fn *ssa.Function, args []Value) Value {
		key := args[1].(*SliceV)
		pubT := fn.Signature.Results().At(0).Type().(*types.Pointer).Elem()
		if !p.branch(p.tc.Eq(key.Len, p.tc.Const(64, 32))) {
			return TupleV{&PtrV{}, p.sentinelError("crypto/ecdh: invalid public key")}
		}
		pub := p.newObject(pubT, "x25519pub")
		cp := p.newByteStore(types.Typ[types.Uint8], 8, p.tc.Const(64, 32), false, "x25519pubbytes")
		p.copyElems(cp, p.tc.Const(64, 0), key.Obj, key.Off, p.tc.Const(64, 32))
		p.storeObj(p.fieldObj(pub, "publicKey"), byteSlice(p, cp, 32))
		return TupleV{&PtrV{Obj: pub}, &IfaceV{}}
	}
	intrinsics["(*crypto/ecdh.PrivateKey).ECDH"] = func(p *Path, fn *ssa.Function, args []Value) Value {
		priv, remote := args[0].(*PtrV), args[1].(*PtrV)
		p.nilCheck(priv, "ECDH on nil private key")
		p.nilCheck(remote, "ECDH with nil public key")
		tc := p.tc
		if p.h.ECDHMayFail {
			// X25519 refuses low-order points (all-zero shared secret): the remote share decides
			bad := p.fresh("in_bool", BoolSort)
			p.addInput("bool", bad)
			if p.branch(bad) {
				return TupleV{&SliceV{}, p.sentinelError("crypto/ecdh: bad X25519 remote ECDH input: low order point")}
			}
		}
		a := p.first64(p.loadObj(p.fieldObj(priv.Obj, "privateKey")).(*SliceV))
		b := p.first64(p.loadObj(p.fieldObj(remote.Obj, "publicKey")).(*SliceV))
		lo := tc.Ite(tc.Ult(a, b), a, b)
		hi := tc.Ite(tc.Ult(a, b), b, a)
		s := tc.UF("x25519_shared", BV(64), lo, hi)
		// collision-free: different key pairs give different shared secrets
		for _, o := range p.x25519Shared {
			p.assume(tc.Or(tc.Not(tc.Eq(o[2], s)), tc.And(tc.Eq(o[0], lo), tc.Eq(o[1], hi))))
		}
		p.x25519Shared = append(p.x25519Shared, [3]*Term{lo, hi, s})
		out := p.newByteStore(types.Typ[types.Uint8], 8, tc.Const(64, 32), false, "x25519shared")
		for i := 0; i < 8; i++ {
			p.writeElem(out, tc.Const(64, uint64(i)), tc.Extract(s, 63-8*i, 56-8*i))
		}
		return TupleV{byteSlice(p, out, 32), &IfaceV{}}
	}
}

func init() {
	// maps.clone (runtime-implemented, no body): a shallow copy of the map
	intrinsics["maps.clone"] = func(p *Path, fn *ssa.Function, args []Value) Value {
		iv, ok := args[0].(*IfaceV)
		var mv *MapV
		if ok {
			mv, _ = iv.Val.(*MapV)
		} else {
			mv, _ = args[0].(*MapV)
		}
		if mv == nil || mv.M == nil {
			if ok {
				return &IfaceV{Typ: iv.Typ, Val: &MapV{}}
			}
			return &MapV{}
		}
		p.mapTouch(mv.M)
		p.objN++
		m := &MapObj{ID: p.objN, Typ: mv.M.Typ}
		for _, e := range mv.M.Entries {
			m.Entries = append(m.Entries, &MapEntry{Key: e.Key, Val: e.Val, Present: e.Present})
		}
		if ok {
			return &IfaceV{Typ: iv.Typ, Val: &MapV{M: m}}
		}
		return &MapV{M: m}
	}
}
