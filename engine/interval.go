package main

// A small syntactic decision procedure for the length/offset arithmetic that
// dominates frame code: 64-bit terms are read as linear forms over atoms with
// known integer ranges (learned from the asserted path condition), and
// comparisons are decided from the range of the difference. It is used only
// to avoid solver calls for pruning (memory-log range tests, branch
// feasibility); every property obligation still goes to the SMT solver.
// Soundness: all reasoning is over mathematical integers and is abandoned as
// soon as a range is unknown or exceeds ±2^61, so 64-bit wrap-around cannot
// occur inside a decided comparison.

const ivLimit = int64(1) << 61

type ival struct {
	lo, hi int64
}

type linForm struct {
	coef map[*Term]int64
	k    int64
}

func (p *Path) boundOf(t *Term) (ival, bool) {
	if iv, ok := p.bounds[t]; ok {
		return iv, true
	}
	return ival{}, false
}

func (p *Path) setBound(t *Term, lo, hi int64, hasLo, hasHi bool) {
	if p.bounds == nil {
		p.bounds = map[*Term]ival{}
	}
	cur, ok := p.bounds[t]
	if !ok {
		cur = ival{-ivLimit * 2, ivLimit * 2} // "unknown" sentinel range
	}
	if hasLo && lo > cur.lo {
		cur.lo = lo
	}
	if hasHi && hi < cur.hi {
		cur.hi = hi
	}
	p.bounds[t] = cur
}

// learn extracts atom ranges from an asserted condition.
func (p *Path) learn(c *Term) {
	switch c.Op {
	case OpAnd:
		p.learn(c.Args[0])
		p.learn(c.Args[1])
		return
	case OpNot:
		a := c.Args[0]
		switch a.Op {
		case OpOr: // not(a or b) = not a and not b
			p.learn(p.tc.Not(a.Args[0]))
			p.learn(p.tc.Not(a.Args[1]))
		case OpBvSlt: // not(x < y) = y <= x
			p.learnCmp(a.Args[1], a.Args[0], true, false)
		case OpBvSle:
			p.learnCmp(a.Args[1], a.Args[0], true, true)
		case OpBvUlt:
			p.learnCmp(a.Args[1], a.Args[0], false, false)
		case OpBvUle:
			p.learnCmp(a.Args[1], a.Args[0], false, true)
		}
		return
	case OpBvSlt:
		p.learnCmp(c.Args[0], c.Args[1], true, true)
	case OpBvSle:
		p.learnCmp(c.Args[0], c.Args[1], true, false)
	case OpBvUlt:
		p.learnCmp(c.Args[0], c.Args[1], false, true)
	case OpBvUle:
		p.learnCmp(c.Args[0], c.Args[1], false, false)
	case OpEq:
		a, b := c.Args[0], c.Args[1]
		if a.S.K != SBV {
			return
		}
		if b.IsConst() && !a.IsConst() {
			v := b.SignedVal()
			if a.S.W < 64 {
				v = int64(b.Val)
			}
			p.setBound(a, v, v, true, true)
		}
	}
}

// learnCmp records x < y (strict) or x <= y.
func (p *Path) learnCmp(x, y *Term, signed, strict bool) {
	if x.S.K != SBV {
		return
	}
	w := x.S.W
	if signed && w < 64 {
		return // narrow terms are read unsigned here; leave signed facts to the solver
	}
	if w == 64 {
		// move a constant offset: (a + k1) < k2  ==>  a < k2-k1 (only when a's range is known to be small enough not to wrap)
		if lf, ok := p.linOf(x, 0); ok && len(lf.coef) == 1 && lf.k != 0 && y.IsConst() {
			for a, c := range lf.coef {
				if c == 1 {
					if iv, ok := p.rangeOfTerm(a); ok && abs64(iv.lo) < ivLimit/2 && abs64(iv.hi) < ivLimit/2 && abs64(lf.k) < ivLimit/2 {
						yk := y.SignedVal()
						if !signed {
							if y.Val >= uint64(ivLimit) || iv.lo+lf.k < 0 {
								return
							}
							yk = int64(y.Val)
						}
						dd := int64(0)
						if strict {
							dd = 1
						}
						p.setBound(a, 0, yk-lf.k-dd, false, true)
					}
				}
			}
			return
		}
	}
	d := int64(0)
	if strict {
		d = 1
	}
	cval := func(t *Term) (int64, bool) {
		if !t.IsConst() {
			return 0, false
		}
		if signed && w == 64 {
			return t.SignedVal(), true
		}
		if signed {
			return t.SignedVal(), true
		}
		if t.Val >= uint64(ivLimit) {
			return 0, false
		}
		return int64(t.Val), true
	}
	if k, ok := cval(y); ok && !x.IsConst() {
		// x < k
		if signed {
			p.setBound(x, 0, k-d, false, true)
		} else {
			// unsigned x <= k-d with k small: x is in [0, k-d] as a signed number too
			p.setBound(x, 0, k-d, true, true)
		}
		return
	}
	if k, ok := cval(x); ok && !y.IsConst() {
		// k < y
		if signed {
			p.setBound(y, k+d, 0, true, false)
		} else if iv, ok := p.rangeOfTerm(y); ok && iv.lo >= 0 {
			p.setBound(y, k+d, 0, true, false)
		}
	}
}

// linOf reads a 64-bit term as a linear form.
func (p *Path) linOf(t *Term, depth int) (linForm, bool) {
	if t.S.K != SBV || t.S.W != 64 || depth > 40 {
		return linForm{}, false
	}
	switch t.Op {
	case OpConst:
		return linForm{k: t.SignedVal()}, abs64(t.SignedVal()) < ivLimit
	case OpBvAdd, OpBvSub:
		a, ok1 := p.linOf(t.Args[0], depth+1)
		b, ok2 := p.linOf(t.Args[1], depth+1)
		if !ok1 || !ok2 {
			break
		}
		sign := int64(1)
		if t.Op == OpBvSub {
			sign = -1
		}
		out := linForm{coef: map[*Term]int64{}, k: a.k + sign*b.k}
		for k, v := range a.coef {
			out.coef[k] += v
		}
		for k, v := range b.coef {
			out.coef[k] += sign * v
			if out.coef[k] == 0 {
				delete(out.coef, k)
			}
		}
		return out, abs64(out.k) < ivLimit
	case OpBvNeg:
		a, ok := p.linOf(t.Args[0], depth+1)
		if ok {
			out := linForm{coef: map[*Term]int64{}, k: -a.k}
			for k, v := range a.coef {
				out.coef[k] = -v
			}
			return out, true
		}
	case OpBvMul:
		if t.Args[1].IsConst() || t.Args[0].IsConst() {
			c, x := t.Args[1], t.Args[0]
			if !c.IsConst() {
				c, x = x, c
			}
			cv := c.SignedVal()
			a, ok := p.linOf(x, depth+1)
			if ok && abs64(cv) < 1<<20 {
				out := linForm{coef: map[*Term]int64{}, k: a.k * cv}
				for k, v := range a.coef {
					out.coef[k] = v * cv
				}
				return out, abs64(out.k) < ivLimit
			}
		}
	case OpSext, OpZext:
		// sext/zext(extract(x, w-1, 0)) == x when x is known to fit
		in := t.Args[0]
		if in.Op == OpExtract && in.Val&0xff == 0 && in.Args[0].S.W == 64 {
			x := in.Args[0]
			w := in.S.W
			if iv, ok := p.rangeOfTerm(x); ok {
				if t.Op == OpSext && iv.lo >= -(int64(1)<<(w-1)) && iv.hi < int64(1)<<(w-1) {
					return p.linOf(x, depth+1)
				}
				if t.Op == OpZext && iv.lo >= 0 && iv.hi < int64(1)<<w {
					return p.linOf(x, depth+1)
				}
			}
		}
	case OpIte:
		switch p.decide(t.Args[0], depth+1) {
		case 1:
			return p.linOf(t.Args[1], depth+1)
		case -1:
			return p.linOf(t.Args[2], depth+1)
		}
	}
	return linForm{coef: map[*Term]int64{t: 1}}, true
}

func abs64(x int64) int64 {
	if x < 0 {
		return -x
	}
	return x
}

// atomRange gives the integer range of an atom (signed reading for 64-bit
// terms, unsigned reading for narrower ones).
func (p *Path) atomRange(t *Term, depth int) (ival, bool) {
	var out ival
	have := false
	if iv, ok := p.boundOf(t); ok && iv.lo > -ivLimit && iv.hi < ivLimit {
		out, have = iv, true
	} else if ok {
		// partial knowledge: combine with structural knowledge below
		out = iv
	}
	var st ival
	sok := false
	switch t.Op {
	case OpConst:
		v := t.SignedVal()
		if t.S.W < 64 {
			v = int64(t.Val)
		}
		st, sok = ival{v, v}, true
	case OpZext:
		iw := t.Args[0].S.W
		if iw <= 60 {
			st, sok = ival{0, int64(1)<<iw - 1}, true
			if in, ok := p.atomRange(t.Args[0], depth+1); ok && depth < 20 {
				if in.lo > st.lo {
					st.lo = in.lo
				}
				if in.hi < st.hi {
					st.hi = in.hi
				}
			}
		}
	case OpSext:
		iw := t.Args[0].S.W
		if iw <= 60 {
			st, sok = ival{-(int64(1) << (iw - 1)), int64(1)<<(iw-1) - 1}, true
		}
	case OpSelect, OpExtract, OpConcat, OpVar, OpBvAnd, OpBvOr, OpBvXor, OpBvNot, OpBvLShr, OpBvURem, OpBvUDiv, OpUF:
		if t.S.W <= 60 {
			st, sok = ival{0, int64(1)<<t.S.W - 1}, true
		}
		if t.Op == OpBvAnd && t.S.W == 64 {
			for _, a := range t.Args {
				if a.IsConst() && a.Val < uint64(ivLimit) {
					st, sok = ival{0, int64(a.Val)}, true
				}
			}
		}
	case OpIte:
		if depth < 20 {
			a, ok1 := p.rangeOfTermD(t.Args[1], depth+1)
			b, ok2 := p.rangeOfTermD(t.Args[2], depth+1)
			if ok1 && ok2 {
				st, sok = ival{min(a.lo, b.lo), max(a.hi, b.hi)}, true
			}
		}
	}
	if sok {
		if !have {
			if _, ok := p.boundOf(t); ok {
				// merge partial learned bounds
				if out.lo > st.lo {
					st.lo = out.lo
				}
				if out.hi < st.hi {
					st.hi = out.hi
				}
			}
			return st, true
		}
		if st.lo > out.lo {
			out.lo = st.lo
		}
		if st.hi < out.hi {
			out.hi = st.hi
		}
	}
	return out, have
}

func (p *Path) rangeOfTerm(t *Term) (ival, bool) { return p.rangeOfTermD(t, 0) }

func (p *Path) rangeOfTermD(t *Term, depth int) (ival, bool) {
	if t.S.K != SBV {
		return ival{}, false
	}
	if t.S.W != 64 {
		return p.atomRange(t, depth)
	}
	lf, ok := p.linOf(t, depth)
	if !ok {
		return ival{}, false
	}
	return p.rangeOfLin(lf, depth)
}

func (p *Path) rangeOfLin(lf linForm, depth int) (ival, bool) {
	lo, hi := lf.k, lf.k
	for a, c := range lf.coef {
		iv, ok := p.atomRange(a, depth+1)
		if !ok {
			return ival{}, false
		}
		x, y := iv.lo*c, iv.hi*c
		if abs64(iv.lo) >= ivLimit || abs64(iv.hi) >= ivLimit || abs64(c) > 1<<20 {
			return ival{}, false
		}
		if x > y {
			x, y = y, x
		}
		lo += x
		hi += y
		if abs64(lo) >= ivLimit || abs64(hi) >= ivLimit {
			return ival{}, false
		}
	}
	return ival{lo, hi}, true
}

// decide returns +1 if c certainly holds, -1 if it certainly does not, 0 if unknown.
func (p *Path) decide(c *Term, depth int) int {
	if depth > 40 {
		return 0
	}
	switch c.Op {
	case OpConst:
		if c.Val == 1 {
			return 1
		}
		return -1
	case OpNot:
		return -p.decide(c.Args[0], depth+1)
	case OpAnd:
		a := p.decide(c.Args[0], depth+1)
		if a == -1 {
			return -1
		}
		b := p.decide(c.Args[1], depth+1)
		if b == -1 {
			return -1
		}
		if a == 1 && b == 1 {
			return 1
		}
		return 0
	case OpOr:
		a := p.decide(c.Args[0], depth+1)
		if a == 1 {
			return 1
		}
		b := p.decide(c.Args[1], depth+1)
		if b == 1 {
			return 1
		}
		if a == -1 && b == -1 {
			return -1
		}
		return 0
	case OpBvSlt, OpBvSle, OpBvUlt, OpBvUle, OpEq:
		a, b := c.Args[0], c.Args[1]
		if a.S.K != SBV {
			return 0
		}
		unsigned := c.Op == OpBvUlt || c.Op == OpBvUle
		var d ival
		if a.S.W == 64 {
			la, ok1 := p.linOf(a, depth+1)
			lb, ok2 := p.linOf(b, depth+1)
			if !ok1 || !ok2 {
				return 0
			}
			if unsigned {
				ra, ok1 := p.rangeOfLin(la, depth+1)
				rb, ok2 := p.rangeOfLin(lb, depth+1)
				if !ok1 || !ok2 || ra.lo < 0 || rb.lo < 0 {
					return 0
				}
			} else if c.Op == OpEq {
				// equality of wrapped values equals equality of integers only if both are in range
				_, ok1 := p.rangeOfLin(la, depth+1)
				_, ok2 := p.rangeOfLin(lb, depth+1)
				if !ok1 || !ok2 {
					return 0
				}
			} else {
				_, ok1 := p.rangeOfLin(la, depth+1)
				_, ok2 := p.rangeOfLin(lb, depth+1)
				if !ok1 || !ok2 {
					return 0
				}
			}
			diff := linForm{coef: map[*Term]int64{}, k: la.k - lb.k}
			for k, v := range la.coef {
				diff.coef[k] += v
			}
			for k, v := range lb.coef {
				diff.coef[k] -= v
				if diff.coef[k] == 0 {
					delete(diff.coef, k)
				}
			}
			var ok bool
			d, ok = p.rangeOfLin(diff, depth+1)
			if !ok {
				return 0
			}
		} else {
			if c.Op == OpBvSlt || c.Op == OpBvSle {
				return 0 // narrow signed comparisons: leave to the solver
			}
			ra, ok1 := p.atomRange(a, depth+1)
			rb, ok2 := p.atomRange(b, depth+1)
			if !ok1 || !ok2 {
				return 0
			}
			d = ival{ra.lo - rb.hi, ra.hi - rb.lo}
		}
		switch c.Op {
		case OpBvSlt, OpBvUlt:
			if d.hi < 0 {
				return 1
			}
			if d.lo >= 0 {
				return -1
			}
		case OpBvSle, OpBvUle:
			if d.hi <= 0 {
				return 1
			}
			if d.lo > 0 {
				return -1
			}
		case OpEq:
			if d.lo == 0 && d.hi == 0 {
				return 1
			}
			if d.lo > 0 || d.hi < 0 {
				return -1
			}
		}
	}
	return 0
}
