package main

import (
	"golang.org/x/tools/go/ssa"
)

// Pure-diamond merging: a symbolic If whose two arms rejoin at the immediate
// post-dominator, contain no loops, and perform no externally visible side
// effect (writes only to objects allocated inside the arm) is evaluated on
// both arms and joined with ite instead of forking the path.

// exitSentinel stands for the function's virtual exit as a merge join: arms
// that all end in Return are merged into one returned ite value.
var exitSentinel = &ssa.BasicBlock{Comment: "exit"}

type pdomInfo struct {
	ipdom []int // block index -> immediate postdominator index, -1 = exit
}

func (e *Engine) postdoms(fn *ssa.Function) *pdomInfo {
	e.mu.Lock()
	defer e.mu.Unlock()
	if pi, ok := e.pdoms[fn]; ok {
		return pi
	}
	n := len(fn.Blocks)
	// pdom sets as bitsets over n+1 nodes (n = virtual exit)
	words := (n + 1 + 63) / 64
	full := make([]uint64, words)
	for i := 0; i <= n; i++ {
		full[i/64] |= 1 << uint(i%64)
	}
	sets := make([][]uint64, n+1)
	for i := 0; i <= n; i++ {
		sets[i] = append([]uint64(nil), full...)
	}
	exit := make([]uint64, words)
	exit[n/64] |= 1 << uint(n%64)
	sets[n] = exit
	succs := func(b *ssa.BasicBlock) []int {
		if len(b.Succs) == 0 {
			return []int{n}
		}
		out := make([]int, len(b.Succs))
		for i, s := range b.Succs {
			out[i] = s.Index
		}
		return out
	}
	changed := true
	for changed {
		changed = false
		for i := n - 1; i >= 0; i-- {
			b := fn.Blocks[i]
			nw := append([]uint64(nil), full...)
			for _, s := range succs(b) {
				for w := range nw {
					nw[w] &= sets[s][w]
				}
			}
			nw[i/64] |= 1 << uint(i%64)
			same := true
			for w := range nw {
				if nw[w] != sets[i][w] {
					same = false
				}
			}
			if !same {
				sets[i] = nw
				changed = true
			}
		}
	}
	has := func(s []uint64, i int) bool { return s[i/64]&(1<<uint(i%64)) != 0 }
	count := func(s []uint64) int {
		c := 0
		for i := 0; i <= n; i++ {
			if has(s, i) {
				c++
			}
		}
		return c
	}
	pi := &pdomInfo{ipdom: make([]int, n)}
	for i := 0; i < n; i++ {
		// ipdom = the strict postdominator with the largest pdom set
		best, bestC := -1, -1
		for j := 0; j <= n; j++ {
			if j == i || !has(sets[i], j) {
				continue
			}
			c := count(sets[j])
			if c > bestC {
				best, bestC = j, c
			}
		}
		if best == n {
			best = -1
		}
		pi.ipdom[i] = best
	}
	e.pdoms[fn] = pi
	return pi
}

// regionOK reports whether all paths from start reach join within a small
// acyclic region.
func regionOK(start, join *ssa.BasicBlock, limit int) bool {
	state := map[*ssa.BasicBlock]int{} // 1 = on stack, 2 = done
	count := 0
	var dfs func(b *ssa.BasicBlock) bool
	dfs = func(b *ssa.BasicBlock) bool {
		if b == join {
			return true
		}
		switch state[b] {
		case 1:
			return false // cycle
		case 2:
			return true
		}
		count++
		if count > limit {
			return false
		}
		if len(b.Succs) == 0 {
			if join != exitSentinel {
				return false
			}
			_, isRet := b.Instrs[len(b.Instrs)-1].(*ssa.Return)
			state[b] = 2
			return isRet
		}
		state[b] = 1
		for _, s := range b.Succs {
			if !dfs(s) {
				return false
			}
		}
		state[b] = 2
		return true
	}
	return dfs(start)
}

func (p *Path) tryMerge(fr *Frame, in *ssa.If, cond *Term, outerStop *ssa.BasicBlock) bool {
	if p.eng.noMerge || p.lenient > 0 {
		return false
	}
	b := in.Block()
	pi := p.eng.postdoms(fr.fn)
	j := pi.ipdom[b.Index]
	var join *ssa.BasicBlock
	if j < 0 {
		if outerStop != nil && outerStop != exitSentinel {
			return false
		}
		if fr.fn.Recover != nil || len(fr.defers) > 0 && false {
			return false
		}
		join = exitSentinel
	} else {
		join = fr.fn.Blocks[j]
	}
	if !regionOK(b.Succs[0], join, 12) || !regionOK(b.Succs[1], join, 12) {
		return false
	}
	nphi := 0
	if join == exitSentinel {
		nphi = 1
	}
	for _, ins := range join.Instrs {
		if _, ok := ins.(*ssa.Phi); ok {
			nphi++
		} else {
			break
		}
	}
	// snapshot for rollback
	saveGuard, saveNoFork, saveBase := p.guard, p.noFork, p.mergeBaseObj
	nEvents, nInputs, nStack := len(p.events), len(p.inputs), len(p.stack)
	saveInstr := fr.curInstr
	saveBudget := p.mergeBudget
	nViol := len(p.violations)
	obl, dis := p.st.Obligations, p.st.Discharged
	if saveGuard == nil {
		p.mergeBaseObj = p.objN
		p.mergeDepth = len(p.stack)
		p.mergeBudget = p.st.Instrs + 4000
	}
	ok := true
	var vals [2][]Value
	func() {
		defer func() {
			if r := recover(); r != nil {
				if _, isAbort := r.(mergeAbort); isAbort {
					ok = false
					return
				}
				panic(r)
			}
		}()
		for arm := 0; arm < 2; arm++ {
			g := cond
			if arm == 1 {
				g = p.tc.Not(cond)
			}
			if saveGuard != nil {
				g = p.tc.And(saveGuard, g)
			}
			p.guard, p.noFork = g, true
			fr.prev = b
			p.runBlocks(fr, b.Succs[arm], join)
			if join == exitSentinel {
				if !fr.hasPendingRet {
					panic(mergeAbort{"arm did not return"})
				}
				vals[arm] = []Value{fr.pendingRet}
				fr.pendingRet, fr.hasPendingRet = nil, false
				continue
			}
			if fr.hasPending {
				// an inner merge already joined at the same block
				vals[arm] = fr.pendingPhi
				fr.pendingPhi, fr.hasPending = nil, false
				continue
			}
			// phi inputs for this arm
			idx := -1
			for i, pr := range join.Preds {
				if pr == fr.prev {
					idx = i
				}
			}
			if idx < 0 {
				panic(mergeAbort{"join predecessor not found"})
			}
			vals[arm] = make([]Value, nphi)
			for i := 0; i < nphi; i++ {
				vals[arm][i] = p.get(fr, join.Instrs[i].(*ssa.Phi).Edges[idx])
			}
		}
		p.guard, p.noFork = saveGuard, true
		merged := make([]Value, nphi)
		for i := 0; i < nphi; i++ {
			merged[i] = p.iteValue(cond, vals[0][i], vals[1][i])
		}
		if join == exitSentinel {
			fr.pendingRet, fr.hasPendingRet = merged[0], true
		} else if join == outerStop {
			fr.pendingPhi, fr.hasPending = merged, true
		} else {
			for i := 0; i < nphi; i++ {
				fr.env[join.Instrs[i].(*ssa.Phi)] = merged[i]
			}
			fr.phiDone = true
		}
	}()
	p.guard, p.noFork, p.mergeBaseObj, p.mergeBudget = saveGuard, saveNoFork, saveBase, saveBudget
	p.stack = p.stack[:nStack]
	fr.curInstr = saveInstr
	if !ok {
		fr.pendingPhi, fr.hasPending, fr.phiDone = nil, false, false
		fr.pendingRet, fr.hasPendingRet = nil, false
		p.events = p.events[:nEvents]
		p.inputs = p.inputs[:nInputs]
		p.violations = p.violations[:nViol]
		p.st.Obligations, p.st.Discharged = obl, dis
		return false
	}
	p.st.Merges++
	fr.block = join
	return true
}
